"""C09 - renaming variables never changes which binding a name refers to."""
import json
import os
import random
import re

from . import common as C
from . import c09_gen as G

META = {
    "title": "Renaming variables never changes which binding a name refers to",
    "level": "proof",
    "design_ref": "DESIGN.md section 6 / C09",
    "technique": "Coq theorems about (a) the scoping specification (alpha-normaliser `nameless`), (b) a Gallina model of "
                 "RenameProcessor's scope stack / reuse pool / avoid set as a state machine, invariant by induction over all "
                 "operation sequences, (c) the name generator (injective, only valid non-keyword identifiers); the models are "
                 "tied to the Rust code on every run (generated-name stream, operation traces driven through the real "
                 "RenameProcessor); the traversal (ScopeVisitor insertion points) is validated per run: darklua's real output "
                 "trees are alpha-normalised inside Coq and compared with the alpha-normalised input",
    "level_text": "Machine-checked theorems for the specification, the scope-stack state machine and the name stream; the "
                  "traversal itself is covered by translation validation: for every generated program and configuration the "
                  "real rule's output (tree, and text written by process() re-parsed) has the same nameless form as the "
                  "input, evaluated by vm_compute in Coq, and every new name is checked against keywords, configured "
                  "globals and the input's free globals.",
    "level_note": "Trusted: Coq kernel + vm_compute; Lua/Resolve.v (the scoping specification); harness dl-rules/astdump/dl-c09; "
                  "darklua's parser (program text -> tree, output text -> tree).  The whole-traversal theorem "
                  "(rename_preserves_binding) is NOT proved: it is replaced by the per-run oracle.  Type names / type-field "
                  "namespaces are not represented in the dumped trees (only typeof(expr) is).",
    "trusted_base": ["Coq 8.16.1 kernel, vm_compute", "Lua/Resolve.v (scoping specification)",
                     "harness/crates/rules + astdump + c09", "darklua's parser"],
    "allowed_axioms": [],
    "rule": "templates (one per scoping situation of the property) + seeded random programs over a small identifier pool "
            "+ 400-live-local programs, each under rule configurations {default, include_functions, globals $default/"
            "$roblox/[print,foo]}; generators dense/readable/retain_lines for the end-to-end text; non-trivial = the rule "
            "changed at least one binder name and both output trees pass; distinct by (configuration, source)",
    "assumptions": ["fewer than 4 771 499 fresh names are drawn in one file (then the generator would emit `self`, which it "
                    "never avoids; theorem C09_self_never_generated is stated under this bound)",
                    "ScopeVisitor's traversal is validated per run, not proved (rename_preserves_binding_partial)"],
}

KEYWORDS = ["and", "break", "do", "else", "elseif", "end", "false", "for", "function", "if", "in", "local", "nil", "not",
            "or", "repeat", "return", "then", "true", "until", "while"]


def read_globals_tables():
    """DEFAULT and ROBLOX of /repo/src/rules/rename_variables/globals.rs (read from the working tree on every run)."""
    text = open(os.path.join(C.REPO, "src/rules/rename_variables/globals.rs")).read()
    out = {}
    for m in re.finditer(r"pub const (\w+): \[&str; (\d+)\] = \[(.*?)\];", text, flags=re.S):
        names = re.findall(r'"([^"]*)"', m.group(3))
        if len(names) != int(m.group(2)):
            raise C.CheckBroken("globals.rs: %s has %d names, declared %s" % (m.group(1), len(names), m.group(2)))
        out[m.group(1)] = names
    if "DEFAULT" not in out or "ROBLOX" not in out:
        raise C.CheckBroken("globals.rs: DEFAULT/ROBLOX tables not found")
    return out


def coq_names(names):
    return "[" + "; ".join('nm "%s"' % n for n in names) + "]"


def preamble(tables):
    return """From Coq Require Import ZArith.
From DL Require Import Lib.Bytes Lua.Syntax Lua.Resolve.
Open Scope N_scope.
Definition bx := unhex.
Definition nm := of_string.
Definition is_alpha (c : N) : bool := ((65 <=? c) && (c <=? 90)) || ((97 <=? c) && (c <=? 122)) || (c =? 95).
Open Scope string_scope.
Definition g_default : list name := %s.
Definition g_roblox : list name := %s.
Definition keywords : list name := %s.
Definition mem (x : name) (l : list name) : bool := existsb (bytes_eqb x) l.
Definition valid_identifier (x : name) : bool :=
  match x with
  | c :: r => is_alpha c && forallb (fun d => is_alpha d || is_digit d) r
  | [] => false
  end.
(* verdict for one output tree:
   0 same nameless form, all new names fine, at least one binder renamed     1 same, nothing renamed
   2 nameless forms differ (a binding, a global, a field, a method or self changed)
   3 a new name is a keyword   4 a new name is a configured global   5 a new name is a free global of the input
   6 a local function name changed although include_functions is off          7 a new name is not an identifier *)
Fixpoint judge (incl : bool) (globals fg : list name) (bs : list ((N * name) * (N * name))) (changed : bool) : N :=
  match bs with
  | [] => if changed then 0 else 1
  | ((k, x), (_, y)) :: r =>
    if N.eqb k 2 && negb incl then (if bytes_eqb x y then judge incl globals fg r changed else 6)
    else if negb (valid_identifier y) then 7
    else if mem y keywords then 3
    else if mem y globals then 4
    else if mem y fg then 5
    else judge incl globals fg r (changed || negb (bytes_eqb x y))
  end.
Definition verdict (incl : bool) (globals : list name) (bin bout : block) : N :=
  if list_N_eqb (fingerprint (nameless bout)) (fingerprint (nameless bin))
  then judge incl globals (free_globals bin) (combine (binders_k bin) (binders_k bout)) false
  else 2.
Definition stat_case (c : (bool * list name) * (block * (block * block))) : N :=
  let '((incl, globals), (bin, (bout, be2e))) := c in
  100 * verdict incl globals bin bout + verdict incl globals bin be2e.
""" % (coq_names(tables["DEFAULT"]), coq_names(tables["ROBLOX"]), coq_names(KEYWORDS))


# configurations: (rules json, include_functions, coq term of the configured globals)
def configurations():
    base = "g_default"      # Box::<RenameVariables>::default() starts from DEFAULT; `globals` extends it
    return [
        ('["rename_variables"]', False, base),
        ('[{"rule":"rename_variables","include_functions":true}]', True, base),
        ('[{"rule":"rename_variables","globals":["$default"]}]', False, base),
        ('[{"rule":"rename_variables","globals":["$roblox"]}]', False, "(g_default ++ g_roblox)%list"),
        ('[{"rule":"rename_variables","include_functions":true,"globals":["$roblox"]}]', True, "(g_default ++ g_roblox)%list"),
        ('[{"rule":"rename_variables","globals":["print","foo"]}]', False, '(g_default ++ [nm "print"; nm "foo"])%list'),
        ('[{"rule":"rename_variables","include_functions":true,"globals":["print","foo","a","b"]}]', True,
         '(g_default ++ [nm "print"; nm "foo"; nm "a"; nm "b"])%list'),
    ]


VERDICTS = {2: "nameless forms differ: a binding, a global, a field, a method name or self changed",
            3: "a new name is a reserved word", 4: "a new name is a configured global",
            5: "a new name is a global the file uses", 6: "a local function name changed although include_functions is off",
            7: "a new name is not a valid identifier"}


def run(ctx):
    C.build_harness("dl-rules")
    proofs_ok = C.proof_gate(ctx, ["Lua/Resolve.vo"])
    rnd = random.Random(ctx.seed)
    quick = ctx.tier == "quick"
    tables = read_globals_tables()
    cfgs = configurations()
    gens = ['"dense"', '"readable"', '"retain_lines"']

    jobs = []  # (rules json, generator, source, include_functions, globals term, origin)
    for src in G.TEMPLATES:
        for rules, incl, gl in cfgs:
            jobs.append((rules, rnd.choice(gens), src, incl, gl, "template"))
    for n, style in ((400, 0), (400, 1), (300, 2), (400, 3)) if quick else \
            ((400, 0), (400, 1), (300, 2), (400, 3), (4200, 0), (1000, 1), (700, 3)):
        for rules, incl, gl in (rnd.sample(cfgs, 2) if quick else cfgs[:4]):
            jobs.append((rules, rnd.choice(gens), G.many_locals(n, style), incl, gl, "many-locals"))
    n_random = 700 if quick else 12000
    for k in range(n_random):
        src = G.random_program(rnd, luau=(k % 5 == 4))
        for rules, incl, gl in rnd.sample(cfgs, 2):
            jobs.append((rules, rnd.choice(gens), src, incl, gl, "random"))

    seen, uniq = set(), []
    for j in jobs:
        key = (j[0], j[2])
        if key not in seen:
            seen.add(key)
            uniq.append(j)
    jobs = uniq
    stdin = "".join("%s\t%s\t%s\n" % (j[0], j[1], j[2].encode().hex()) for j in jobs)
    out = C.harness("dl-rules", ["apply-batch"], input=stdin, timeout=3000)
    lines = out.splitlines()
    if len(lines) != len(jobs):
        raise C.CheckBroken("apply-batch returned %d lines for %d jobs" % (len(lines), len(jobs)))

    cases, index, stage_errors, unparsable = [], {}, [], 0
    for job, line in zip(jobs, lines):
        t_in, t_out, t_e2e, _text = line.split("\t")
        if t_in.startswith("ERR:"):
            unparsable += 1
            continue
        bad_stage = [(s, t) for s, t in (("out", t_out), ("e2e", t_e2e)) if t.startswith("ERR:")]
        if bad_stage:
            stage_errors.append((job, bad_stage[0][0], bad_stage[0][1]))
            continue
        k = len(cases)
        index[k] = job
        cases.append((k, "((%s, %s), (%s, (%s, %s)))" % ("true" if job[3] else "false", job[4], t_in, t_out, t_e2e)))
    if unparsable > len(jobs) // 10:
        raise C.CheckBroken("%d of %d generated programs do not parse" % (unparsable, len(jobs)))
    stats = C.run_coq_stats(ctx.prop, preamble(tables), cases, chunk=40 if quick else 120)

    good = [k for k, v in stats.items() if v == 0]
    trivial = [k for k, v in stats.items() if v in (1, 100, 101)]
    bad = [(k, v) for k, v in sorted(stats.items()) if v not in (0, 1, 100, 101)]
    by_origin = {}
    for k in good:
        by_origin[index[k][5]] = by_origin.get(index[k][5], 0) + 1
    ctx.stream("nameless(OUT) = nameless(IN) and new-name checks on darklua's real output (tree and re-parsed text), in Coq",
               2 * len(cases), len(good),
               [{"rules": index[k][0], "source": index[k][2][:400]} for k in good[:3]],
               passed_nontrivial=len(good), nothing_renamed=len(trivial), failed=len(bad), unparsable_programs=unparsable,
               by_origin=by_origin)
    reported = set()
    for k, v in bad:
        job = index[k]
        v_out, v_e2e = divmod(v, 100)
        code = v_out if v_out > 1 else v_e2e
        stage = "out" if v_out > 1 else "e2e"
        key = classify(job, code)
        if key in reported:
            continue
        reported.add(key)
        ctx.violation(VERDICTS.get(code, "verdict %d" % code),
                      {"rules": job[0], "generator": job[1], "stage": stage, "source": job[2], "verdict": v,
                       "replay": "echo '<rules>\\t<generator>\\t<hex(source)>' | dl-rules apply-batch; oracle: "
                                 "vlib/c09.py preamble (Lua/Resolve.v nameless/fingerprint)"},
                      key=key)
        if len(reported) >= 5:
            break
    for job, stage, t in stage_errors[:3]:
        ctx.violation("darklua failed on a valid program or wrote text that does not parse: " + t[:300],
                      {"rules": job[0], "generator": job[1], "source": job[2], "stage": stage},
                      key=classify(job, "error-" + stage))
    if not proofs_ok and not ctx.violations:
        failed = [n for n, okk, _ in ctx.obligations if not okk]
        ctx.violation("proof obligation no longer checks: " + "; ".join(failed), {"obligations": failed},
                      found_input=False)


def classify(job, code):
    """key of a finding: verdict class + the source (short sources identify the witness exactly)"""
    src = re.sub(r"\s+", "_", job[2].strip())
    return "v%s:%s" % (code, src[:80])


def replay(ctx, path):
    r = json.load(open(path))
    print(json.dumps(r, indent=1))
    rep = r.get("replay", {})
    if "source" in rep and "rules" in rep:
        C.build_harness("dl-rules")
        line = "%s\t%s\t%s\n" % (rep["rules"], rep.get("generator") or '"dense"', rep["source"].encode().hex())
        out = C.harness("dl-rules", ["apply-batch"], input=line)
        t_in, t_out, t_e2e, text = out.strip().split("\t")
        print("output text:\n" + (bytes.fromhex(text).decode("utf-8", "replace") if text != "-" else "-"))
    return 0
