"""C09 - renaming variables never changes which binding a name refers to."""
import json
import os
import random
import re

from . import common as C
from . import c09_gen as G

META = {
    "title": "Renaming variables never changes which binding a name refers to",
    "level": "proof",
    "design_ref": "DESIGN.md section 6 / C09",
    "technique": "Coq theorems about (a) the scoping specification Lua/Resolve.v (alpha-normaliser `nameless`: idempotent, "
                 "invariant under every capture-free renaming, and under every renaming with fresh names), (b) a Gallina model "
                 "of RenameProcessor (scope stack, reuse pool, avoid set) as a state machine with its invariant proved by "
                 "induction over all operation sequences, (c) the name generator (injective, only valid non-keyword "
                 "identifiers); the models are tied to the Rust code on every run (generated-name stream, raw permutator, "
                 "operation traces through the real RenameProcessor, exact output tree of the rule against the traversal "
                 "model); the property itself is decided per run by translation validation: darklua's real output trees are "
                 "alpha-normalised inside Coq and compared with the alpha-normalised input",
    "level_text": "Machine-checked theorems for the specification, the scope-stack state machine and the name stream; the "
                  "whole-traversal theorem is only proved for renamers whose choices satisfy the state machine's invariant "
                  "(C09_rename_preserves_binding_partial), the link from ScopeVisitor's traversal to that hypothesis is "
                  "covered by translation validation: for every generated program and configuration the real rule's output "
                  "(tree, and text written by process() re-parsed) has the same nameless form as the input, evaluated by "
                  "vm_compute in Coq, every new name is checked against keywords, configured globals and the input's free "
                  "globals, and the output tree equals the traversal model's output exactly.",
    "level_note": "Trusted: Coq kernel + vm_compute; Lua/Resolve.v (the scoping specification); harness dl-rules/astdump/dl-c09; "
                  "darklua's parser (program text -> tree, output text -> tree).  Type names / type-field namespaces are not "
                  "represented in the dumped trees (only typeof(expr) is), so process_type_field is outside the check.",
    "trusted_base": ["Coq 8.16.1 kernel, vm_compute", "Lua/Resolve.v (scoping specification)",
                     "harness/crates/rules + astdump + c09", "darklua's parser"],
    "allowed_axioms": [],
    "rule": "programs: 58 templates (one per scoping situation of the property) x 7 configurations + seeded random programs "
            "over a 28-identifier pool (2 configurations each) + 300/400-live-local programs; configurations {default, "
            "include_functions, globals $default / $roblox / [print,foo] / [print,foo,a,b]}; generators dense/readable/"
            "retain_lines for the end-to-end text; non-trivial = the rule changed at least one binder name and both output "
            "trees pass; distinct by (configuration, source).  Model ties: first 20 000 (quick) / 300 000 (thorough) "
            "generated names, 6 000 / 300 000 raw permutator strings, 300 / 5 000 random operation traces (non-trivial = "
            "contains a pop).  Each run also checks that the oracle flags 3 negative controls (captures produced by the real "
            "rule with detect_globals off) and 15 hand-made trees (one per verdict class, an explicit parameter `self` in a method, names listed before/after a group entry of `globals`).  Configurations: 7 base ones + `globals` lists with $default/$roblox at every position among a, b, c, d (10 fixed lists x include_functions x detect_globals + seeded random permutations) on 9 programs whose globals are a, b, c, d.",
    "assumptions": ["fewer than 4 771 499 permutator strings are consumed in one file (the next one is `self`, which the rule "
                    "never avoids: known finding self-generated-after-4.7M-names; C09_generated_disjoint_from_kept is stated "
                    "under this bound and C09_generated_disjoint_from_kept_refuted shows it is needed)",
                    "ScopeVisitor's traversal is validated per run (nameless(OUT) = nameless(IN) in Coq, exact equality with "
                    "Model/RenameTraversal.v), not proved: C09_rename_preserves_binding_partial",
                    "typeof(expr) inside a type annotation is resolved outside the binder group the annotation belongs to "
                    "(Lua/Resolve.v header); darklua resolves generic-for annotations inside the loop scope - programs that "
                    "mention a loop variable in its own annotation are not generated"],
}

KEYWORDS = ["and", "break", "do", "else", "elseif", "end", "false", "for", "function", "if", "in", "local", "nil", "not",
            "or", "repeat", "return", "then", "true", "until", "while"]


def read_globals_tables():
    """DEFAULT and ROBLOX of /repo/src/rules/rename_variables/globals.rs (read from the working tree on every run)."""
    text = open(os.path.join(C.REPO, "src/rules/rename_variables/globals.rs")).read()
    out = {}
    for m in re.finditer(r"pub const (\w+): \[&str; (\d+)\] = \[(.*?)\];", text, flags=re.S):
        names = re.findall(r'"([^"]*)"', m.group(3))
        if len(names) != int(m.group(2)):
            raise C.CheckBroken("globals.rs: %s has %d names, declared %s" % (m.group(1), len(names), m.group(2)))
        out[m.group(1)] = names
    if "DEFAULT" not in out or "ROBLOX" not in out:
        raise C.CheckBroken("globals.rs: DEFAULT/ROBLOX tables not found")
    return out


def coq_names(names):
    return "[" + "; ".join('nm "%s"' % n for n in names) + "]"


def preamble(tables):
    return """From Coq Require Import ZArith.
From DL Require Import Lib.Bytes Lua.Syntax Lua.Resolve Model.Rename Model.RenameTraversal.
Open Scope N_scope.
Definition bx := unhex.
Definition nm := of_string.
Definition is_alpha (c : N) : bool := ((65 <=? c) && (c <=? 90)) || ((97 <=? c) && (c <=? 122)) || (c =? 95).
Open Scope string_scope.
Definition g_default : list name := %s.
Definition g_roblox : list name := %s.
Definition keywords : list name := %s.
Definition valid_identifier (x : name) : bool :=
  match x with
  | c :: r => is_alpha c && forallb (fun d => is_alpha d || is_digit d) r
  | [] => false
  end.
(* verdict for one output tree:
   0 same nameless form, all new names fine, at least one binder renamed     1 same, nothing renamed
   2 nameless forms differ (a binding, a global, a field, a method or self changed)
   3 a new name is a keyword   4 a new name is a configured global   5 a new name is a free global of the input
   6 a local function name changed although include_functions is off          7 a new name is not an identifier *)
Fixpoint judge (incl : bool) (globals fg : list name) (bs : list ((N * name) * (N * name))) (changed : bool) : N :=
  match bs with
  | [] => if changed then 0 else 1
  | ((k, x), (_, y)) :: r =>
    if N.eqb k 2 && negb incl then (if bytes_eqb x y then judge incl globals fg r changed else 6)
    else if negb (valid_identifier y) then 7
    else if mem y keywords then 3
    else if mem y globals then 4
    else if mem y fg then 5
    else judge incl globals fg r (changed || negb (bytes_eqb x y))
  end.
Definition verdict (incl : bool) (globals : list name) (bin bout : block) : N :=
  if list_N_eqb (fingerprint (nameless bout)) (fingerprint (nameless bin))
  then judge incl globals (free_globals bin) (combine (binders_k bin) (binders_k bout)) false
  else 2.
(* the configured globals, for the oracle: DEFAULT (the rule starts from it) and, for every entry of the `globals`
   list in whatever order, the names it stands for - written independently of Model.Rename.set_globals *)
Definition spec_globals (entries : list gentry) : list name :=
  (g_default ++ flat_map (fun e => match e with GDefault => g_default | GRoblox => g_roblox | GName x => [x] end) entries)%%list.
(* + 10000 when the tree darklua produced is not EXACTLY the tree Model/RenameTraversal.v produces *)
Definition stat_case (c : ((bool * bool) * list gentry) * (block * (block * block))) : N :=
  let '(((incl, detect), entries), (bin, (bout, be2e))) := c in
  (if list_N_eqb (fingerprint (rename_model (configured_globals g_default g_roblox entries) incl detect bin))
                 (fingerprint bout) then 0 else 10000)
  + 100 * verdict incl (spec_globals entries) bin bout + verdict incl (spec_globals entries) bin be2e.
""" % (coq_names(tables["DEFAULT"]), coq_names(tables["ROBLOX"]), coq_names(KEYWORDS))


MODEL_PREAMBLE = """From DL Require Import Lib.Bytes Model.Rename Proof.RenameStream.
Open Scope N_scope.
Definition nm := of_string.
Fixpoint split_nl (s cur : bytes) (acc : list bytes) : list bytes :=
  match s with
  | [] => rev acc
  | c :: r => if c =? 10 then split_nl r [] (rev cur :: acc) else split_nl r (c :: cur) acc
  end.
(* the dumped names continue the model's stream of valid identifiers from raw position p *)
Fixpoint stream_matches (l : list name) (p : N) : bool :=
  match l with
  | [] => true
  | x :: r => match search (fun q => valid_ident (nth_raw q)) search_bits p with
              | Some q => if bytes_eqb (nth_raw q) x then stream_matches r (q + 1) else false
              | None => false
              end
  end.
Fixpoint raw_matches (l : list name) (p : N) : bool :=
  match l with
  | [] => true
  | x :: r => if bytes_eqb (nth_raw p) x then raw_matches r (p + 1) else false
  end.
Fixpoint names_eqb (a b : list name) : bool :=
  match a, b with
  | [], [] => true
  | x :: a', y :: b' => bytes_eqb x y && names_eqb a' b'
  | _, _ => false
  end.
Inductive kase :=
| KStream (first : bool) (hex : String.string)      (* a chunk of generated_identifiers; later chunks start with the
                                                       last name of the chunk before, located by index_of *)
| KRaw (start : N) (hex : String.string)            (* a chunk of the raw permutator, from position start *)
| KTrace (avoid0 : list name) (ops : list op) (expected : list name).
Definition start_of (first : bool) (l : list name) : N :=
  match l with x :: _ => if first then 0 else index_of x | [] => 0 end.
Definition check_case (k : kase) : bool :=
  match k with
  | KStream first h =>
    let l := split_nl (unhex h) [] [] in
    match l with
    | [] => false
    | x :: _ => bytes_eqb (nth_raw (start_of first l)) x && stream_matches l (start_of first l)
    end
  | KRaw start h => let l := split_nl (unhex h) [] [] in negb (Nat.eqb (List.length l) 0) && raw_matches l start
  | KTrace avoid0 ops expected => names_eqb (trace (init avoid0) ops) expected
  end.
Open Scope string_scope.
Definition join (l : list name) : String.string :=
  List.fold_right (fun x acc => (to_string x ++ " " ++ acc)%string) "" l.
Definition diag_case (k : kase) : String.string :=
  match k with
  | KStream _ _ => "stream"
  | KRaw _ _ => "raw"
  | KTrace avoid0 ops _ => ("model: " ++ join (trace (init avoid0) ops))%string
  end.
"""

TRACE_NAMES = ["x", "y", "a", "b", "c", "aa", "f", "g", "self", "print", "d", "e", "ab", "_"]


def make_trace(rnd, long=False):
    """one operation sequence for the real RenameProcessor / Rename.step"""
    incl = rnd.random() < 0.5
    avoid = rnd.sample(["a", "b", "c", "d", "aa", "f", "g", "print", "e", "ab", "A", "_"], rnd.randint(0, 6))
    n = rnd.randint(150, 400) if long else rnd.randint(5, 60)
    ops, depth = [], 0
    for _ in range(n):
        k = rnd.random()
        if k < 0.15:
            ops.append("+")
            depth += 1
        elif k < 0.30 and (depth > 0 or rnd.random() < 0.1):
            ops.append("-")
            depth = max(0, depth - 1)
        elif k < (0.80 if long else 0.60):
            ops.append(rnd.choice(["i:", "l:"]) + rnd.choice(TRACE_NAMES))
        elif k < 0.65:
            ops.append("s")
        elif k < 0.75:
            ops.append("f:" + rnd.choice(TRACE_NAMES))
        else:
            ops.append("?:" + rnd.choice(TRACE_NAMES))
    return incl, avoid, ops


def coq_op(tok, incl):
    if tok == "+":
        return "OPush"
    if tok == "-":
        return "OPop"
    if tok == "s":
        return "OInsertSelf"
    kind, name = tok.split(":")
    if kind in ("i", "l") or (kind == "f" and incl):
        return '(OInsert (nm "%s"))' % name
    if kind == "f":
        return '(OKeep (nm "%s"))' % name
    return '(OLookup (nm "%s"))' % name


def model_correspondence(ctx):
    """tie Model/Rename.v to the compiled code: name streams and operation traces"""
    quick = ctx.tier == "quick"
    rnd = random.Random(ctx.seed + 909)
    cases, meta = [], {}
    n_stream = 20000 if quick else 300000
    names = C.harness("dl-c09", ["stream", "--n", str(n_stream)]).split()
    if len(names) != n_stream:
        raise C.CheckBroken("dl-c09 stream returned %d names" % len(names))
    step = 2000
    for k in range(0, n_stream, step):
        part = names[max(0, k - 1):k + step]
        cid = len(cases)
        meta[cid] = ("stream", k)
        cases.append((cid, "(KStream %s %s)" % ("true" if k == 0 else "false",
                                                C.coq_string(("\n".join(part) + "\n").encode().hex()))))
    n_raw = 6000 if quick else 300000
    raw = C.harness("dl-c09", ["raw", "--n", str(n_raw)]).split()
    if len(raw) != n_raw:
        raise C.CheckBroken("dl-c09 raw returned %d names" % len(raw))
    for k in range(0, n_raw, step):
        cid = len(cases)
        meta[cid] = ("raw", k)
        cases.append((cid, "(KRaw %d %s)" % (k, C.coq_string(("\n".join(raw[k:k + step]) + "\n").encode().hex()))))
    n_traces = 300 if quick else 5000
    traces = [make_trace(rnd, long=(i % 10 == 9)) for i in range(n_traces)]
    stdin = "".join("%d\t%s\t%s\n" % (1 if incl else 0, ",".join(avoid), " ".join(ops)) for incl, avoid, ops in traces)
    lines = C.harness("dl-c09", ["trace"], input=stdin).splitlines()
    if len(lines) != n_traces:
        raise C.CheckBroken("dl-c09 trace returned %d lines for %d cases" % (len(lines), n_traces))
    first_trace = len(cases)
    generated = 0
    for (incl, avoid, ops), line in zip(traces, lines):
        got = line.split(" ")
        if len(got) != len(ops):
            raise C.CheckBroken("dl-c09 trace: %d results for %d ops" % (len(got), len(ops)))
        generated += sum(1 for o in ops if o[0] in "il")
        cid = len(cases)
        meta[cid] = ("trace", (incl, avoid, ops, got))
        cases.append((cid, "(KTrace [%s] [%s] [%s])" % (
            "; ".join('nm "%s"' % a for a in avoid), "; ".join(coq_op(o, incl) for o in ops),
            "; ".join("[]" if g == "-" else 'nm "%s"' % g for g in got))))
    bad = C.run_coq_cases(ctx.prop, MODEL_PREAMBLE, cases, chunk=4 if quick else 12, tag="model")
    bad_ids = {cid for cid, _ in bad}
    ctx.stream("generate_identifier stream (hook generated_identifiers) = Model.Rename.gen_stream, in Coq",
               n_stream, n_stream, [{"names": names[60:64]}, {"names": names[-3:]}],
               mismatching_chunks=sum(1 for c in bad_ids if meta[c][0] == "stream"))
    ctx.stream("raw Permutator over the identifier alphabet = Model.Rename.nth_raw, in Coq",
               n_raw, n_raw, [{"names": raw[62:66]}],
               mismatching_chunks=sum(1 for c in bad_ids if meta[c][0] == "raw"))
    ctx.stream("operation traces through the real RenameProcessor = Model.Rename.step, in Coq",
               n_traces, sum(1 for c in range(first_trace, len(cases)) if any(o[0] == "-" for o in meta[c][1][2])),
               [{"include_functions": t[0], "avoid": t[1], "ops": " ".join(t[2][:40])} for t in traces[:2]],
               mismatches=sum(1 for c in bad_ids if meta[c][0] == "trace"), names_generated=generated)
    return [(meta[cid], diag) for cid, diag in bad]


# configurations: (rules json, include_functions, coq term of the configured globals)
def make_config(entries=None, incl=False, detect=True):
    """(rules json, include_functions, Coq term of the `globals` ENTRIES (list gentry), detect_globals, entries).
    The configured set is computed from the entries inside Coq, by the oracle (spec_globals: DEFAULT plus the flat
    expansion of every entry with the tables read from globals.rs) and, separately, by the model (configured_globals)."""
    if entries is None and not incl and detect:
        rules = '["rename_variables"]'
    else:
        obj = {"rule": "rename_variables"}
        if entries is not None:
            obj["globals"] = entries
        if incl:
            obj["include_functions"] = True
        if not detect:
            obj["detect_globals"] = False
        rules = json.dumps([obj], separators=(",", ":"))
    term = "[" + "; ".join("GDefault" if e == "$default" else "GRoblox" if e == "$roblox" else '(GName (nm "%s"))' % e
                           for e in (entries or [])) + "]"
    return (rules, incl, term, detect, list(entries or []))


def configurations():
    return [
        make_config(), make_config(incl=True), make_config(["$default"]), make_config(["$roblox"]),
        make_config(["$roblox"], incl=True), make_config(["print", "foo"]),
        make_config(["print", "foo", "a", "b"], incl=True),
    ]


# `globals` lists in which the groups stand at every position among custom short names (the first names the
# generator hands out), with repetitions: the configured set must be the union whatever the order
ORDER_LISTS = [
    ["a", "b", "c", "d", "$default"], ["$default", "a", "b", "c", "d"], ["a", "b", "$default", "c", "d"],
    ["a", "$roblox", "b", "$default", "c", "d"], ["$roblox", "d", "c", "b", "a"], ["d", "c", "b", "a", "$roblox"],
    ["a", "$default", "b", "$default", "c", "$default", "d"], ["$default", "$default", "a", "b", "c", "d"],
    ["a", "b", "c", "d", "$roblox", "$roblox", "$default"], ["a", "b", "c", "d"],
]


def order_configurations(rnd, n_random):
    """(configuration, all four custom names listed?) for the fixed lists x include_functions x detect_globals, plus
    seeded random permutations of a random subset of the names with the groups inserted at random positions"""
    out = []
    for entries in ORDER_LISTS:
        for incl in (False, True):
            for detect in (True, False):
                out.append(make_config(entries, incl, detect))
    for _ in range(n_random):
        names = rnd.sample(["a", "b", "c", "d"], rnd.randint(1, 4))
        groups = [rnd.choice(["$default", "$roblox"]) for _ in range(rnd.randint(1, 3))]
        entries = names[:]
        for g in groups:
            entries.insert(rnd.randint(0, len(entries)), g)
        detect = len(names) < 4 or rnd.random() < 0.5     # detection may only be off when every used global is listed
        out.append(make_config(entries, rnd.random() < 0.5, detect))
    return out


# programs whose free identifiers are among a, b, c, d and DEFAULT names: with all four listed, nothing can be
# captured even when global detection is off
GLOBALS_PROGRAMS = [
    "local value = 1\nreturn a + value",
    "local x, y, z, w, v = 1, 2, 3, 4, 5\nprint(a, b, c, d)\nreturn x + y + z + w + v",
    "local function f(p, q) return a(p) + b(q) end\nlocal r = f(c, d)\nreturn r, print",
    "for i = 1, 3 do local s = a[i] b(s, i) end\nfor k, v in pairs(c) do d(k, v) end",
    "local t = {}\nfunction t:m(x) return self, x, a end\nfunction t.n(y) local z = y return b, z end\nreturn t, c, d",
    "local v1, v2, v3, v4, v5, v6 = a, b, c, d, print, pairs\nreturn v1, v2, v3, v4, v5, v6",
    "do local u = 1 print(u) end\ndo local w = 2 print(w, a) end\nlocal n = b\nreturn n, c, d",
    "local function g() local h = 1 return h end\nlocal k = g()\nreturn k",
    "local p1 = 1\nrepeat local p2 = p1 + 1 until p2 > d or c(p2)\nwhile a do local p3 = b p1 = p3 end\nreturn p1",
]


VERDICTS = {2: "nameless forms differ: a binding, a global, a field, a method name or self changed",
            3: "a new name is a reserved word", 4: "a new name is a configured global",
            5: "a new name is a global the file uses", 6: "a local function name changed although include_functions is off",
            7: "a new name is not a valid identifier"}


def run(ctx):
    C.build_harness("dl-rules")
    C.build_harness("dl-c09")
    proofs_ok = C.proof_gate(ctx, ["Lua/Resolve.vo", "Model/RenameTraversal.vo"])
    from concurrent.futures import ThreadPoolExecutor
    pool = ThreadPoolExecutor(max_workers=1)
    witness_job = pool.submit(C.harness, "dl-c09", ["self-witness", "--names", "4730700"], None, 900)
    model_bad = model_correspondence(ctx)
    rnd = random.Random(ctx.seed)
    quick = ctx.tier == "quick"
    tables = read_globals_tables()
    cfgs = configurations()
    gens = ['"dense"', '"readable"', '"retain_lines"']

    jobs = []  # (rules json, generator, source, include_functions, globals term, origin)
    ocfgs = order_configurations(rnd, 12 if quick else 150)
    detect_on = [c for c in ocfgs if c[3]]
    for src in G.TEMPLATES:
        for rules, incl, gl, detect, _ in cfgs + rnd.sample(detect_on, 1 if quick else 6):
            jobs.append((rules, rnd.choice(gens), src, incl, gl, "template", detect))
    for src in GLOBALS_PROGRAMS:
        for rules, incl, gl, detect, entries in ocfgs:
            if detect or all(n in entries for n in "abcd"):
                jobs.append((rules, rnd.choice(gens), src, incl, gl, "globals-order", detect))
    for n, style in ((400, 0), (400, 1), (300, 2), (400, 3)) if quick else \
            ((400, 0), (400, 1), (300, 2), (400, 3), (4200, 0), (1000, 1), (700, 3)):
        for rules, incl, gl, detect, _ in (rnd.sample(cfgs, 2) if quick else cfgs[:4]):
            jobs.append((rules, rnd.choice(gens), G.many_locals(n, style), incl, gl, "many-locals", detect))
    # negative controls (outside the property: global detection switched off lets a generated name capture a
    # global that appears later): the oracle must flag them, otherwise it cannot fail at all
    controls = ["local x = 1\nreturn a, x", "local function f(p) return p end\nreturn a(f)", "local v = 1\ndo local w = v end\nreturn b"]
    for src in controls:
        jobs.append(('[{"rule":"rename_variables","detect_globals":false,"include_functions":true}]', '"dense"', src,
                     True, "[]", "control", False))
    n_random = 500 if quick else 8000
    for k in range(n_random):
        src = G.random_program(rnd, luau=(k % 5 == 4))
        for rules, incl, gl, detect, _ in rnd.sample(cfgs, 1) + rnd.sample(detect_on, 1):
            jobs.append((rules, rnd.choice(gens), src, incl, gl, "random", detect))

    seen, uniq = set(), []
    for j in jobs:
        key = (j[0], j[2])
        if key not in seen:
            seen.add(key)
            uniq.append(j)
    jobs = uniq
    stdin = "".join("%s\t%s\t%s\n" % (j[0], j[1], j[2].encode().hex()) for j in jobs)
    out = C.harness("dl-rules", ["apply-batch"], input=stdin, timeout=3000)
    lines = out.splitlines()
    if len(lines) != len(jobs):
        raise C.CheckBroken("apply-batch returned %d lines for %d jobs" % (len(lines), len(jobs)))

    cases, index, stage_errors, unparsable = [], {}, [], 0
    for job, line in zip(jobs, lines):
        t_in, t_out, t_e2e, _text = line.split("\t")
        if t_in.startswith("ERR:"):
            unparsable += 1
            continue
        bad_stage = [(s, t) for s, t in (("out", t_out), ("e2e", t_e2e)) if t.startswith("ERR:")]
        if bad_stage:
            stage_errors.append((job, bad_stage[0][0], bad_stage[0][1]))
            continue
        k = len(cases)
        index[k] = job
        cases.append((k, "(((%s, %s), %s), (%s, (%s, %s)))" % ("true" if job[3] else "false",
                                                             "true" if job[6] else "false",
                                                             job[4], t_in, t_out, t_e2e)))
    # self-test of the oracle on hand-made (input tree, bad output tree) pairs, one per verdict class
    one = "(ENumber (NDec 4607182418800017408 None))"
    def loc(name, body="None"):
        return '(Block [(SLocal false [(Param (nm "%s") None)] [%s])] %s)' % (name, one, body)
    def lfun(name):
        return '(Block [(SLocalFunction (nm "%s") (FBody [] false None None None 0 (Block [] None)))] None)' % name
    def scoped(name):
        return ('(Block [(SDo (Block [(SLocal false [(Param (nm "%s") None)] [%s])] None)); '
                '(SCall (ECall (EIdent (nm "a")) None (ATuple [])))] None)' % (name, one))
    selftests = [  # (include_functions, input, bad output, expected verdict)
        (True, loc("x"), loc("end"), 3), (True, loc("x"), loc("print"), 4), (True, scoped("x"), scoped("a"), 5),
        (False, lfun("f"), lfun("b"), 6), (True, loc("x"), loc("1x"), 7),
        (True, loc("x", '(Some (LReturn [(EIdent (nm "x"))]))'), loc("b", '(Some (LReturn [(EIdent (nm "x"))]))'), 2),
        (True, loc("x", '(Some (LReturn [(EIdent (nm "x"))]))'), loc("b", '(Some (LReturn [(EIdent (nm "b"))]))'), 0),
    ]
    def meth(param, ret):   # function t:m(<param>) return <ret> end
        return ('(Block [(SFunction (nm "t") [] (Some (nm "m")) (FBody [(Param (nm "%s") None)] false None None None 0 '
                '(Block [] (Some (LReturn [(EIdent (nm "%s"))])))))] None)' % (param, ret))
    # an explicit parameter self shadows the receiver: renaming it while the body keeps `self` rebinds the body
    selftests += [(True, meth("self", "self"), meth("a", "self"), 2), (True, meth("self", "self"), meth("a", "a"), 0),
                  (True, meth("x", "self"), meth("a", "self"), 0), (True, meth("x", "self"), meth("self", "self"), 2)]
    selftest_ids = {}
    for incl, t_in, t_bad, expect in selftests:
        k = len(cases)
        selftest_ids[k] = expect
        cases.append((k, "(((%s, true), []), (%s, (%s, %s)))" % ("true" if incl else "false", t_in, t_bad, t_bad)))
    # a name listed BEFORE a group entry is a configured global like any other
    for entries, new_name, expect in (('[(GName (nm "b")); GDefault]', "b", 4), ('[GRoblox; (GName (nm "b")); GDefault; GDefault]', "b", 4),
                                      ('[GDefault; (GName (nm "c"))]', "b", 0), ('[(GName (nm "c")); GRoblox]', "game", 4)):
        k = len(cases)
        selftest_ids[k] = expect
        cases.append((k, "(((true, true), %s), (%s, (%s, %s)))" % (entries, loc("x"), loc(new_name), loc(new_name))))
    if unparsable > len(jobs) // 10:
        raise C.CheckBroken("%d of %d generated programs do not parse" % (unparsable, len(jobs)))
    stats = C.run_coq_stats(ctx.prop, preamble(tables), cases, chunk=40 if quick else 120)

    traversal_bad = [k for k, v in stats.items() if v >= 10000 and k not in selftest_ids]
    stats = {k: v % 10000 for k, v in stats.items()}
    for k, expect in selftest_ids.items():
        if stats[k] != 101 * expect:
            raise C.CheckBroken("oracle self-test: verdict %d where %d is expected" % (stats[k], 101 * expect))
        del stats[k]
    control_ids = [k for k in stats if index[k][5] == "control"]
    missed = [k for k in control_ids if stats[k] in (0, 1, 100, 101)]
    if missed or len(control_ids) != len(controls):
        raise C.CheckBroken("the oracle did not flag a negative control (capture with detect_globals off): %r"
                            % [index[k][2] for k in missed])
    for k in control_ids:
        del stats[k]
    good = [k for k, v in stats.items() if v == 0]
    trivial = [k for k, v in stats.items() if v in (1, 100, 101)]
    bad = [(k, v) for k, v in sorted(stats.items()) if v not in (0, 1, 100, 101)]
    by_origin = {}
    for k in good:
        by_origin[index[k][5]] = by_origin.get(index[k][5], 0) + 1
    ctx.stream("nameless(OUT) = nameless(IN) and new-name checks on darklua's real output (tree and re-parsed text), in Coq",
               2 * len(stats), len(good),
               [{"rules": index[k][0], "source": index[k][2][:400]} for k in good[:3]],
               passed_nontrivial=len(good), nothing_renamed=len(trivial), failed=len(bad), unparsable_programs=unparsable,
               by_origin=by_origin)
    ctx.stream("exact output tree of the rule = Model/RenameTraversal.v rename_model (ScopeVisitor order + Rename.step), in Coq",
               len(stats) + len(control_ids), len(good), [], mismatches=len(traversal_bad))
    reported = set()
    for k, v in bad:
        job = index[k]
        v_out, v_e2e = divmod(v, 100)
        code = v_out if v_out > 1 else v_e2e
        stage = "out" if v_out > 1 else "e2e"
        key = classify(job, code)
        if key in reported:
            continue
        reported.add(key)
        ctx.violation(VERDICTS.get(code, "verdict %d" % code),
                      {"rules": job[0], "generator": job[1], "stage": stage, "source": job[2], "verdict": v,
                       "replay": "echo '<rules>\\t<generator>\\t<hex(source)>' | dl-rules apply-batch; oracle: "
                                 "vlib/c09.py preamble (Lua/Resolve.v nameless/fingerprint)"},
                      key=key)
        if len(reported) >= 5:
            break
    # the known collision with `self` on the real rule (a 9.8 MB method body drawing 4.73 million names)
    witness_failure = None
    try:
        witness = witness_job.result()
    except C.CheckBroken as exc:
        # the witness harness itself went wrong (e.g. the real rule overflowed its stack on the 9.8 MB source): that
        # is behaviour of the code under test, reported below if nothing more concrete was found
        witness, witness_failure = "", str(exc)
    pool.shutdown()
    captured = [l for l in witness.splitlines() if l.startswith("CAPTURED")]
    ctx.stream("rename_variables on a method that draws every name before `self`", 1, 1 if captured else 0,
               [{"output_excerpt": captured[0][:300]}] if captured else [], self_generated=bool(captured))
    if captured:
        ctx.violation("a local of a method is renamed to `self` and captures the receiver read after it",
                      {"how": "dl-c09 self-witness --names 4730700 (source built by harness/crates/c09: function t:m() with "
                              "`do local x,x,...(190) end` blocks leaking 189 names each, then `local y = 0 ... use(self, y)`)",
                       "rules": '["rename_variables"]', "output_excerpt": captured[0][:600]},
                      key="self-generated-after-4.7M-names")
    for job, stage, t in stage_errors[:3]:
        ctx.violation("darklua failed on a valid program or wrote text that does not parse: " + t[:300],
                      {"rules": job[0], "generator": job[1], "source": job[2], "stage": stage},
                      key=classify(job, "error-" + stage))
    if witness_failure is not None and not [v for v in ctx.violations if v[2]]:
        ctx.violation("rename_variables on the 4.73-million-name witness no longer completes: " + witness_failure[-400:],
                      {"how": "dl-c09 self-witness --names 4730700", "failure": witness_failure[-1500:]},
                      found_input=False)
    if traversal_bad and not ctx.violations:
        job = index[traversal_bad[0]]
        ctx.violation("correspondence broken: the rule's output tree differs from Model/RenameTraversal.v (visiting order or "
                      "scope handling changed); the binding-level oracle found nothing wrong",
                      {"stream": "traversal model-vs-code", "rules": job[0], "source": job[2],
                       "mismatches": len(traversal_bad)}, found_input=False)
    if model_bad and not ctx.violations:
        what, diag = model_bad[0]
        ctx.violation("correspondence broken: the Rust name generator / RenameProcessor differs from Model/Rename.v "
                      "(theorems no longer apply to the code); the per-run oracle found no binding change",
                      {"stream": what[0], "detail": repr(what[1])[:1500], "diag": diag[:1500], "mismatches": len(model_bad)},
                      found_input=False)
    if not proofs_ok and not ctx.violations:
        failed = [n for n, okk, _ in ctx.obligations if not okk]
        ctx.violation("proof obligation no longer checks: " + "; ".join(failed), {"obligations": failed},
                      found_input=False)


def classify(job, code):
    """key of a finding: verdict class + the source (short sources identify the witness exactly)"""
    src = re.sub(r"\s+", "_", job[2].strip())
    return "v%s:%s" % (code, src[:80])


def replay(ctx, path):
    r = json.load(open(path))
    print(json.dumps(r, indent=1))
    rep = r.get("replay", {})
    if "source" in rep and "rules" in rep:
        C.build_harness("dl-rules")
        line = "%s\t%s\t%s\n" % (rep["rules"], rep.get("generator") or '"dense"', rep["source"].encode().hex())
        out = C.harness("dl-rules", ["apply-batch"], input=line)
        t_in, t_out, t_e2e, text = out.strip().split("\t")
        print("output text:\n" + (bytes.fromhex(text).decode("utf-8", "replace") if text != "-" else "-"))
    return 0
