"""Correspondence stream of C16 (and the shared engine of C17's, vlib/removal_gen.py): the Gallina
models of the optional refactoring rules (coq/Model/Refactor.v; traversals coq/Model/Visit.v and
coq/Model/Removal.v) against the real rules.

Small programs are produced from templates that hit every arm of the models' case splits; each is
pushed through the real rule (`dl-rules apply-batch`, rule applied to the AST), and inside Coq
`block_eqb (model_rule IN) OUT` is evaluated (Lua/Fingerprint.v), modulo the exponent hint of
number literals.  A mismatch alone is "correspondence broken" (found_input=False); the programs on
which model and code disagree are then made observable and run (input vs the real rule's output) in
the reference interpreter to look for a concrete behavioural difference.

Left out on purpose (the models do not cover them): `const function`, user names `_`."""
import itertools
import random

from . import common as C

# ---------------------------------------------------------------------------------------------
# engine

PREAMBLE_HEAD = """From Coq Require Import ZArith.
From DL Require Import Lib.Bytes Lib.F64 Lua.Syntax Lua.Fingerprint Lua.DataSpec Model.Visit Model.Removal Model.Refactor.
From DL Require Model.DefaultRules.
Open Scope N_scope.
Open Scope string_scope.
Definition bx := unhex.
Definition nm := of_string.
Definition inject (id : bytes) (j : json) : block -> block :=
  match value_expr j with Some v => rule_inject_global_value id v | None => fun b => b end.
"""

PREAMBLE_TAIL = """
(* case = (rule ids in application order, (input tree, darklua's output tree));
   verdict: 0 = model = code and the rule changed the tree, 1 = model = code, tree unchanged,
   2 = model <> code *)
Definition norm := DefaultRules.erase_exponents.
Definition stat_case (c : list N * (block * block)) : N :=
  let m := List.fold_left (fun b r => model_rule r b) (fst c) (fst (snd c)) in
  if block_eqb (norm m) (norm (snd (snd c))) then (if block_eqb (fst (snd c)) (snd (snd c)) then 1 else 0) else 2.
"""


def preamble(configs):
    """configs: list of (name, rules json fragment, coq term : block -> block)"""
    arms = "\n".join("  | %d => %s" % (i, c[2]) for i, c in enumerate(configs))
    return (PREAMBLE_HEAD + "Definition model_rule (r : N) : block -> block :=\n  match r with\n" + arms +
            "\n  | _ => fun b => b\n  end.\n" + PREAMBLE_TAIL)


SEARCH_PRELUDE = """local t = { 10, 20, 30, x = 1, a = { b = { c = 1 }, 7 }, s = "s", k1 = 5, y = { z = 2 } }
local function f() ext_f() return 1 end
local function g() ext_g() return 2, 3 end
local function h() ext_h() return nil end
local k, x, y, a, b, c, d, p, q, v, z = 1, 2, 3, 4, 5, true, false, true, nil, 6, 7
local o = { m = function(self, ...) ext_m(self == o, ...) return t end, y = { n = function(self) ext_n() return 1 end } }
local M = {}
"""

SEARCH_PREAMBLE = """From Coq Require Import ZArith.
From DL Require Import Lib.Bytes Lib.F64 Lua.Syntax Lua.Sem Lua.RunCheck.
Open Scope N_scope.
Open Scope string_scope.
Definition bx := unhex.
Definition nm := of_string.
Definition stat_case (c : block * block) : N := compare_all 300%nat (fst c) (snd c).
"""


def apply_batch(jobs):
    """jobs: list of (rules json, source) -> list of (IN, OUT) terms (None when a stage failed)"""
    stdin = "".join("%s\t%s\t%s\n" % (r, '"dense"', s.encode().hex()) for r, s in jobs)
    out = C.harness("dl-rules", ["apply-batch"], input=stdin, timeout=1800)
    lines = out.splitlines()
    if len(lines) != len(jobs):
        raise C.CheckBroken("apply-batch returned %d lines for %d jobs" % (len(lines), len(jobs)))
    res = []
    for line in lines:
        parts = line.split("\t")
        res.append((parts[0], parts[1]) if len(parts) == 4 else ("ERR:format", "ERR:format"))
    return res


def search_failing_input(prop, bad_jobs, env_prelude):
    """For programs on which model and code disagree: make the program observable and compare the
    run of the reference program (the input, for C17 in the modified environment) with the run of
    the REAL rule's output.  Returns (rules, source) or None."""
    cands = []
    for _ids, rules, src in bad_jobs[:12]:
        body = src + ("\nreturn w(1, 2)" if src.startswith("local function w(") else "")
        cands.append((rules, SEARCH_PRELUDE + body))
    if not cands:
        return None
    outs = apply_batch(cands)
    refs = apply_batch([("[]", env_prelude(r) + s) for r, s in cands])
    cases, index = [], {}
    for (rules, src), (_i, t_out), (t_ref, _o) in zip(cands, outs, refs):
        if t_out.startswith("ERR:") or t_ref.startswith("ERR:"):
            continue
        k = len(cases)
        index[k] = (rules, src)
        cases.append((k, "(%s, %s)" % (t_ref, t_out)))
    if not cases:
        return None
    stats = C.run_coq_stats(prop, SEARCH_PREAMBLE, cases, chunk=4, tag="local_search")
    for k in sorted(stats):
        if stats[k] == 2:
            return index[k]
    return None


def run_model_stream(ctx, prop, label, configs, jobs, env_prelude=lambda rules: "", known=None):
    """jobs: list of (config index tuple, source).  `known(source, rules)` -> known-finding key for a
    behavioural difference found by the search.  Returns the number of mismatching cases."""
    seen, uniq = set(), []
    for ids, src in jobs:
        if (ids, src) not in seen:
            seen.add((ids, src))
            uniq.append((ids, "[" + ", ".join(configs[i][1] for i in ids) + "]", src))
    jobs = uniq
    terms = apply_batch([(r, s) for _, r, s in jobs])
    cases, index, unparsable, rule_errors = [], {}, 0, []
    for job, (t_in, t_out) in zip(jobs, terms):
        if t_in.startswith("ERR:"):
            unparsable += 1
            continue
        if t_out.startswith("ERR:"):
            rule_errors.append((job, t_out))
            continue
        k = len(cases)
        index[k] = job
        cases.append((k, "([%s], (%s, %s))" % ("; ".join(str(r) for r in job[0]), t_in, t_out)))
    if unparsable > len(jobs) // 10:
        raise C.CheckBroken("%d of %d templates do not parse" % (unparsable, len(jobs)))
    stats = C.run_coq_stats(prop, preamble(configs), cases, chunk=120, tag="local")
    changed = [k for k, v in stats.items() if v == 0]
    same = [k for k, v in stats.items() if v == 1]
    bad = sorted(k for k, v in stats.items() if v == 2)
    per_rule = {}
    for k in changed:
        for r in set(index[k][0]):
            per_rule[configs[r][0]] = per_rule.get(configs[r][0], 0) + 1
    ctx.stream(label, len(cases), len({index[k][2] + index[k][1] for k in changed}),
               [{"rules": index[k][1], "source": index[k][2]} for k in changed[:3]],
               equal_and_changed=len(changed), equal_and_unchanged=len(same), mismatches=len(bad),
               unparsable_templates=unparsable, rule_errors=len(rule_errors), changed_per_rule=per_rule)
    for job, t in rule_errors[:3]:
        ctx.violation("darklua failed on a valid program: " + t[:300], {"rules": job[1], "source": job[2]})
    if bad:
        job = index[bad[0]]
        found = search_failing_input(prop, [index[k] for k in bad], env_prelude)
        if found is not None:
            ctx.violation("the rule changes the behaviour of a program (found while searching around the programs on "
                          "which the rule's output differs from the model's: %d of %d)" % (len(bad), len(cases)),
                          {"rules": found[0], "source": found[1], "stream": "local rewrites model-vs-code + reference runs",
                           "replay": "darklua process with these rules on this source; compare runs with Lua/RunCheck.v compare_all",
                           "model_mismatch_on": {"rules": job[1], "source": job[2]}},
                          key=known(found[1], found[0]) if known else None)
        else:
            ctx.violation("correspondence broken: the rule's output differs from the model's on %d of %d programs "
                          "(the theorems about the model no longer describe the code)" % (len(bad), len(cases)),
                          {"rules": job[1], "source": job[2], "stream": "local rewrites model-vs-code",
                           "others": [{"rules": index[k][1], "source": index[k][2]} for k in bad[1:6]]},
                          found_input=False)
    return len(bad)


# ---------------------------------------------------------------------------------------------
# C16 templates

CONFIGS = [
    ("group_local_assignment", '"group_local_assignment"', "rule_group_local_assignment"),
    ("convert_local_function_to_assign", '"convert_local_function_to_assign"', "rule_convert_local_function_to_assign"),
    ("convert_function_to_assignment", '"convert_function_to_assignment"', "rule_convert_function_to_assignment"),
    ("remove_method_call", '"remove_method_call"', "rule_remove_method_call"),
    ("convert_square_root_call", '"convert_square_root_call"', "rule_convert_square_root_call"),
]
GROUP, LOCALFN, FNASSIGN, METHOD, SQRT = range(5)


def wrap_fn(body):
    return "local function w(...) %s end" % body


NEST = ["%s", "do %s end", "if c then %s end", "if c then else %s end", "while c do %s end", "repeat %s until c",
        "for i = 1, 2 do %s end", "for k, v in pairs(t) do %s end", "local function g() %s end",
        "local q = function() %s end", "function M.f() %s end", "function M:g() %s end",
        "return function() %s end", "t[function() %s end] = 1", "local r = { function() %s end }"]


def gen_group(rnd, thorough):
    firsts = ["local a", "local a, b", "local a = 1", "local a = f()", "local a = ...", "local a = 1, 2",
              "local a = 1, f()", "local a, b = 1", "local a, b = f()", "local a, b = 1, 2", "local a, b = 1, f()",
              "local a, b = 1, 2, 3", "local a, b, c = 1, 2", "const a = 1", "local a: number = 1",
              "local a = function() return 1 end", "local a = {}"]
    seconds = ["local c", "local c, d", "local c = 2", "local c = g()", "local c = ...", "local c = 2, 3",
               "local c, d = 2", "local c, d = g()", "local c, d = 2, 3", "local c = a", "local c = b",
               "local c = 2, a", "local c = t[a]", "local c = a.x", "local c = a()", "local c = a:m()",
               "local c = function() return a end", "local c = function() local a = 1 return a end",
               "local c = function(a) return a end", "local c = { a = 1 }", "local c = { a }", "local c = t.a",
               "local c = 1 :: typeof(a)", "local c: typeof(a) = 1", "local c = function() a = 1 end",
               "local c = function() function a.b() end end", "local c = function() a.x = 1 end",
               "local c = function(): typeof(a) end", "local c = `x{a}`", "local c = if a then 1 else 2",
               "local a = 2", "local a = a", "const c = 2", "local c = not a", "local c = (a)"]
    out = []
    for f in firsts:
        for s in seconds:
            out.append(wrap_fn("%s %s" % (f, s)))
    thirds = ["local e = 3", "local e = a", "local e = c", "local e", "e = 1", "local function e() end", "local e, f2 = h()"]
    n = 1500 if thorough else 300
    for _ in range(n):
        k = rnd.choice([2, 3, 3, 4])
        parts = [rnd.choice(firsts)] + [rnd.choice(seconds + thirds) for _ in range(k - 1)]
        if rnd.random() < 0.3:
            parts.insert(rnd.randrange(1, len(parts)), rnd.choice(["f()", "x = 1", "do end", "local function z() end"]))
        body = " ".join(parts)
        out.append(wrap_fn(rnd.choice(NEST) % body))
    out += ["", "local a", "local a = 1 return a", "local a = 1 local b = 2 return a, b"]
    return out


def gen_local_function(rnd, thorough):
    base = ["local function f() end", "local function f() return 1 end", "local function f() return f() end",
            "local function f() return f end", "local function f(f) return f end", "local function f(a, f) return f() end",
            "local function f() local f = 1 return f end", "local function f() return function() return f end end",
            "local function f() return function(f) return f end end", "local function f() f = 1 end",
            "local function f() f.x = 1 end", "local function f() function f.g() end end",
            "local function f() function f() end end", "local function f() return t.f end",
            "local function f() return { f = 1 } end", "local function f() return t:f() end",
            "local function f(a: typeof(f)) end", "local function f(): typeof(f) end",
            "local function f() return 1 :: typeof(f) end", "local function f() local x: typeof(f) = 1 end",
            "local function f(...) return ... end", "local function f<T>(a: T, ...: T): T return a end",
            "local function f() local function g() return f end end", "local function f() local function f() end end",
            "local function f() for f = 1, 2 do end end", "local function f() for f in f do end end",
            "local function f() repeat until f end", "local function f() type T = typeof(f) end",
            "@native local function f() end", "local function f() return `a{f}` end",
            "local function f() local function g() return g() end return g end"]
    out = list(base)
    for b in base:
        out.append(wrap_fn(rnd.choice(NEST) % b))
        out.append("%s %s" % (b, rnd.choice(base)))
    return out


def gen_function_to_assign(rnd, thorough):
    base = ["function f() end", "function f(a, b) return a end", "function f(...) return ... end", "function a.b() end",
            "function a.b.c(x) return x end", "function a.b.c.d() end", "function a:m() end", "function a:m(x) return self, x end",
            "function a.b:m(...) return self, ... end", "function a.b.c:m(x, y) end", "function a:m(self) end",
            "function f<T>(a: T, ...: T): T return a end", "function a:m<T>(x: T): T return x end",
            "@native function f() end", "@native function a.b:c() end", "function f() function g() end end",
            "function a:m() function self.n() end end", "function a:m() function self:n() return self end end",
            "function self:m() end", "function self.x() return self end"]
    out = list(base)
    for b in base:
        out.append(wrap_fn(rnd.choice(NEST) % b))
        out.append("%s %s" % (b, rnd.choice(base)))
    return out


RECEIVERS = ["x", "(x)", "('s')", "(\"s\")", "([[s]])", "(nil)", "(true)", "(false)", "(1)", "(0x10)", "(1.5)", "(x.y)", "x.y",
             "x.y.z", "f()", "(f())", "((x))", "x[1]", "(x[1])", "(...)", "({})", "(function() end)", "(-x)", "(a + b)",
             "(`s`)", "(if a then b else c)", "(x :: any)", "(not x)", "x:n()", "(x):n()", "x()", "(x)()", "(x).y", "x<<T>>"]
CALLARGS = ["()", "(1)", "(1, 2)", "(...)", "(f())", "'s'", "\"s\"", "[[s]]", "{}", "{1, k = 2}", "(x)", "(x:m())", "((x):m(1))"]


def gen_method_call(rnd, thorough):
    out = []
    calls = []
    for r in RECEIVERS:
        for a in CALLARGS:
            calls.append("%s:m%s" % (r, a))
    for c in calls:
        out.append(wrap_fn("local r = %s" % c))
    forms = ["%s", "return %s", "local r = %s", "g(%s)", "local r = %s.y", "%s.y = 1", "%s[1] = 2", "local r = %s:n()",
             "%s:n()", "%s()", "local r = %s()", "local r = { %s }", "local r = -%s + 1", "local r = (%s)",
             "local r = %s :: any", "if %s then end", "while %s do end", "repeat until %s", "for i = %s, 2 do end",
             "for k in %s do end", "local r = `a{%s}`", "local r = if %s then 1 else 2", "x += %s", "t[%s] = 1",
             "local r: typeof(%s) = 1", "type T = typeof(%s)", "local r = function() return %s end", "local r = %s<<T>>()"]
    n = 1500 if thorough else 400
    for _ in range(n):
        out.append(wrap_fn(rnd.choice(NEST) % (rnd.choice(forms) % rnd.choice(calls))))
    return out


SQRT_CALLS = ["math.sqrt(x)", "math.sqrt(4)", "math.sqrt(f())", "math.sqrt(...)", "math.sqrt()", "math.sqrt(x, y)",
              "math.sqrt(f(), 1)", "math.sqrt'4'", "math.sqrt\"4\"", "math.sqrt{}", "math.sqrt{f()}", "math.sqrt{1, k = g()}",
              "math.sqrt{[f()] = g()}", "math:sqrt(x)", "math.floor(x)", "m.sqrt(x)", "(math).sqrt(x)", "math['sqrt'](x)",
              "math.sqrt(math.sqrt(x))", "math.sqrt(x + 1)", "math.sqrt(-x)", "math.sqrt((f()))", "math.sqrt(x :: number)",
              "math.sqrt((f() :: number))", "math.sqrt(t.x)", "math.sqrt(t[1])", "math.sqrt(#t)", "math.sqrt(a .. b)",
              "math.sqrt(function() end)", "math.sqrt(a and f())", "math.sqrt(nil)", "math.sqrt(math.sqrt(f()))",
              "sqrt(x)", "math.sqrt.x(1)", "a.math.sqrt(x)", "math.sqrt(x)(y)", "math.sqrt(x).y", "math.sqrt(x):m()",
              "math.sqrt<<T>>(x)"]

# scoping contexts: N = the name that may be shadowed, %s = statements using it
SCOPES = ["%s", "local N = 1 %s", "local N %s", "local a, N = 1, 2 %s", "do local N = 1 end %s", "do local N = 1 %s end",
          "local function N() end %s", "local function N() %s end", "local N = function() %s end",
          "local function g(N) %s end", "local function g(a, N, ...) %s end", "local function g(...) %s end local N = 1",
          "local g = function(N) %s end", "local g = function(N) end %s", "function t.f(N) %s end", "function t.f(N) end %s",
          "function t:N() %s end", "function t.N() %s end", "function N() end %s", "function N.f() %s end", "N = 1 %s",
          "for N = 1, 2 do %s end", "for N = 1, 2 do end %s", "for k, N in pairs(t) do %s end", "for N in pairs(t) do end %s",
          "while c do local N %s break end", "while c do local N = 1 end %s", "if c then local N = 1 else %s end",
          "if c then local N = 1 %s end", "if c then local N = 1 elseif d then %s end", "repeat local N = 1 %s until c",
          "repeat local N = 1 until c %s", "local x = 1 local function g() local N = 2 end %s",
          "local function g() local N = 2 return function() %s end end", "local t = { N = 1 } %s", "type N = number %s",
          "local x: N = 1 %s", "function t:m() %s end", "function t:m(N) %s end", "local function g<N>() %s end",
          "for i = 1, 2 do local N = i end %s", "do do local N = 1 end %s end", "local N = 1 do %s end",
          "local N = 1 local function g() %s end", "local N = 1 function t.f() %s end", "local N = 1 function t:m() %s end",
          "local N = 1 for i = 1, 2 do %s end", "local N = 1 repeat %s until c", "local N = 1 while c do %s end",
          "local N = 1 if c then %s end", "type function tf(N) %s end", "type function tf() local N = 1 %s end"]
# expression contexts whose scope differs from the statement level: E = expression using the name
ESCOPES = ["repeat local N = 1 until E", "repeat until E", "local N = E", "local N, b = 1, E", "local a, N = E, 1",
           "local function g(N: typeof(E)) end", "local function g(): typeof(E) end", "for N = E, E, E do end",
           "for N in E do end", "for k: typeof(E), N in pairs(t) do end", "for N: typeof(E) = 1, 2 do end",
           "local N: typeof(E) = 1", "local function N(a: typeof(E)) return E end", "function t:m(a: typeof(E)) return E end",
           "local g = function(N, b: typeof(E)): typeof(E) return E end"]
EFORMS = ["local r = %s", "return %s", "g(%s)", "local r = { %s, k = %s, [%s] = %s }", "t[%s] = %s", "local r = -%s + %s",
          "local r = (%s)", "local r = %s :: any", "if %s then elseif %s then end", "while %s do end",
          "local r = if %s then %s else %s", "local r = `a{%s}`", "local r = function() return %s end", "x += %s",
          "local r: typeof(%s) = 1", "type T = typeof(%s)", "local r = %s.y", "%s.y = 1", "local r = %s()", "%s()", "%s",
          "local r = %s:m()", "local r = #%s", "local r = not %s", "for i = %s, %s, %s do end", "for k in %s do end"]


def fill(form, e):
    return form % tuple(e for _ in range(form.count("%s")))


def gen_sqrt(rnd, thorough):
    out = []
    for c in SQRT_CALLS:
        out.append(wrap_fn(c))
        out.append(wrap_fn("local r = %s" % c))
        for sc in rnd.sample(SCOPES, len(SCOPES) if thorough else 6):
            out.append(sc.replace("N", "math") % ("%s local r = %s" % (c, c)))
    for sc in SCOPES:
        out.append(sc.replace("N", "math") % "math.sqrt(f()) local r = math.sqrt(x)")
    for sc in ESCOPES:
        out.append(sc.replace("N", "math").replace("E", "math.sqrt(x)"))
    n = 1200 if thorough else 300
    for _ in range(n):
        c = rnd.choice(SQRT_CALLS)
        out.append(rnd.choice(SCOPES).replace("N", "math") % (rnd.choice(NEST) % fill(rnd.choice(EFORMS), c)))
    return out


GENERATORS = {GROUP: gen_group, LOCALFN: gen_local_function, FNASSIGN: gen_function_to_assign, METHOD: gen_method_call,
              SQRT: gen_sqrt}


def excluded(src):
    return "const function" in src


def run_stream(ctx, prop):
    rnd = random.Random(ctx.seed ^ 0xc16)
    thorough = ctx.tier != "quick"
    jobs = []
    pools = {}
    for rid, gen in GENERATORS.items():
        srcs = [s for s in gen(rnd, thorough) if not excluded(s)]
        pools[rid] = srcs
        for s in srcs:
            jobs.append(((rid,), s))
    # compositions: all five rules in a random order on programs mixing constructs
    for _ in range(400 if thorough else 80):
        order = list(GENERATORS)
        rnd.shuffle(order)
        body = "\n".join("do %s end" % rnd.choice(pools[r]) for r in rnd.sample(list(GENERATORS), 3))
        jobs.append((tuple(order), body))
    return run_model_stream(
        ctx, prop, "local rewrites: model of the rule (Model/Refactor.v + traversal models) vs the rule applied to the tree",
        CONFIGS, jobs)


# ---------------------------------------------------------------------------------------------
# behavioural stream on templates: run(input) vs run(the REAL rule's output) in the reference
# interpreter (property-level oracle, independent of the models)

BEHAVIOUR_PREAMBLE = """From Coq Require Import ZArith.
From DL Require Import Lib.Bytes Lib.F64 Lua.Syntax Lua.Sem Lua.RunCheck Lua.KnownClasses.
Open Scope N_scope.
Open Scope string_scope.
Definition bx := unhex.
Definition nm := of_string.
(* case = (input program, output program); verdict = compare_all (0 same, 1 no verdict, 2 different)
   + 10 when the input holds math.sqrt of a statically negative zero / negative infinity *)
Definition stat_case (c : block * block) : N :=
  compare_all 300%nat (fst c) (snd c) + (if known_sqrt_call (fst c) then 10 else 0).
"""

BEHAVIOUR_SHAPES = {
    GROUP: ["local a1 = f() local b1 = 2 return a1, b1", "local a1, b1 = g() local c1 = 3 return a1, b1, c1",
            "local a1 = g() local b1, c1 = g() return a1, b1, c1", "local a1 local b1 = f() return a1, b1",
            "local a1 = f() local b1 return a1, b1", "local a1 = 1 local b1 = function() return a1 end return b1()",
            "local a1 = f() local a1 = g() return a1", "local a1 = f() local b1 = (function(p1) return p1 end)(x) return a1, b1",
            "local a1 = 1, f() local b1 = 3 return a1, b1", "local a1 = g() local b1 = g() local c1 = h() return a1, b1, c1",
            "local a1 = f() local b1 = a1 + 1 local c1 = 3 return a1, b1, c1", "local a1, b1 local c1, d1 = g() return a1, b1, c1, d1"],
    LOCALFN: ["local function r1(n1) if n1 == 0 then return 0 end return r1(n1 - 1) end return r1(2)",
              "local function r1(a1) return a1 end return r1(f())", "local function r1(r1) return r1 end return r1(5)",
              "local function r1() return g() end local function r2() return r1() end return r2()",
              "local function r1(...) return select('#', ...), ... end return r1(g())",
              "local r1 = 1 local function r1() return 2 end return r1()"],
    FNASSIGN: ["function M.f(a1) return a1 end return M.f(f())", "function M:m(a1) return self == M, a1 end return M:m(3)",
               "M.sub = {} function M.sub.f(...) return ... end return M.sub.f(g())",
               "M.sub = {} function M.sub:m() return self == M.sub end return M.sub:m()",
               "function gl(a1) return a1 end return gl(1)", "local lf function lf(a1) return a1 + 1 end return lf(1)",
               "function M:m(...) return self == M, select('#', ...) end return M:m(g())",
               "function M.f() function M.g() return 1 end return M.g end return M.f()()"],
    METHOD: ["return o:m(1, 2)", "return ('abc'):len()", "local s1 = 'abc' return s1:len(), s1:sub(2)", "return o.y:n()",
             "return (o):m(f())", "return o:m(o:m(1))", "o:m(g()) return 1", "return o:m 'lit'", "return o:m { 1 }",
             # receivers with an effect behind every wrapper the rule may look through (parentheses at any depth, casts,
             # fields and calls of calls): the receiver is evaluated exactly once
             "local function mk() ext_mk() return o end return (mk()):m(1)",
             "local function mk() ext_mk() return o end return ((mk())):m(1)",
             "local function mk() ext_mk() return o end return (((mk()))):m(2, 3)",
             "local function mk() ext_mk() return o end return (mk() :: any):m(1)",
             "local function mk() ext_mk() return o end return ((mk()) :: any):m()",
             "local function mk() ext_mk() return o end return mk().y:n()",
             "local function mk() ext_mk() return o end return ((mk()).y):n()",
             "local function mk() ext_mk() return o end return ((mk() or o)):m(1)",
             "local function mk() ext_mk() return { o } end return ((mk())[1]):m(1)",
             "local function mk() ext_mk() return o end mk():m(mk():m(1)) return 1"],
    SQRT: ["return math.sqrt(4), math.sqrt(x)", "return 1 / math.sqrt(-0)", "return math.sqrt(-1/0)", "math.sqrt(f()) return 1",
           "local math = { sqrt = function(v1) ext_s(v1) return 7 end } return math.sqrt(2)", "return math.sqrt('4')",
           "return math.sqrt(math.sqrt(16))", "math.sqrt(f(), g()) return 2", "math.sqrt(t.x) return 3",
           "local function w1(math) return math.sqrt(9) end return w1({ sqrt = function() return 0 end })"],
}


def run_behaviour(ctx, prop):
    rnd = random.Random(ctx.seed ^ 0xbe16)
    jobs = []
    for rid, shapes in BEHAVIOUR_SHAPES.items():
        for body in shapes:
            jobs.append(((rid,), body))
            order = list(BEHAVIOUR_SHAPES)
            rnd.shuffle(order)
            jobs.append((tuple(order), body))
    progs = [("[" + ", ".join(CONFIGS[i][1] for i in ids) + "]", SEARCH_PRELUDE + body) for ids, body in jobs]
    terms = apply_batch(progs)
    cases, index, errors = [], {}, 0
    for (rules, src), (t_in, t_out) in zip(progs, terms):
        if t_in.startswith("ERR:") or t_out.startswith("ERR:"):
            errors += 1
            continue
        k = len(cases)
        index[k] = (rules, src, t_in != t_out)
        cases.append((k, "(%s, %s)" % (t_in, t_out)))
    stats = C.run_coq_stats(prop, BEHAVIOUR_PREAMBLE, cases, chunk=12, tag="behaviour")
    same = [k for k, v in stats.items() if v % 10 == 0]
    bad = sorted(k for k, v in stats.items() if v % 10 == 2)
    ctx.stream("templates: run(input) vs run(the rule's output) in the Coq reference interpreter",
               len(cases), len({index[k][1] + index[k][0] for k in same if index[k][2]}),
               [{"rules": index[k][0], "source": index[k][1]} for k in same[:2]],
               same=len(same), no_verdict=sum(1 for v in stats.values() if v % 10 == 1), differing=len(bad),
               stage_errors=errors)
    for k in bad:
        rules, src, _ = index[k]
        key = ("convert_square_root_call:negative-zero-or-negative-infinity"
               if stats[k] >= 10 and "convert_square_root_call" in rules else None)
        ctx.violation("output program behaves differently from the original",
                      {"rules": rules, "source": src, "stream": "C16 templates, behavioural",
                       "replay": "darklua process with these rules on this source; compare runs with Lua/RunCheck.v compare_all"},
                      key=key)
    return len(bad)
