"""Regenerate MANIFEST.json from the property modules (./check --manifest)."""
import importlib
import json
import os

from . import common as C

PENDING_REASON = {}

def claimed_ids():
    """properties whose check is complete and reviewed (one id per line in claimed.txt)"""
    path = os.path.join(C.ROOT, "claimed.txt")
    return [l.strip() for l in open(path) if l.strip() and not l.startswith("#")]


def main():
    props = [json.loads(l) for l in open(os.path.join(C.ROOT, "properties.jsonl"))]
    checks, na = [], []
    for p in props:
        pid = p["id"]
        if pid not in claimed_ids():
            na.append({"property_id": pid, "reason": PENDING_REASON.get(
                pid, "check not built yet in this round (planned in DESIGN.md section 6); not claimed")})
            continue
        try:
            mod = importlib.import_module("vlib." + pid.lower())
        except ImportError:
            na.append({"property_id": pid, "reason": PENDING_REASON.get(
                pid, "check not built yet in this round (planned in DESIGN.md section 6); not claimed")})
            continue
        m = mod.META
        checks.append({
            "property_id": pid,
            "quick_cmd": "./check %s --tier quick" % pid,
            "thorough_cmd": "./check %s --tier thorough" % pid,
            "evidence_file": "/verif/evidence/%s.json" % pid,
            "replay_cmd_template": "./check %s --replay {path}" % pid,
            "engine": "coq-model+correspondence",
            "level_claimed": {"category": m.get("level", "proof"), "text": m["level_text"],
                              "design_ref": m.get("design_ref", "DESIGN.md section 6")},
            "level_note": m["level_note"],
            "technique": m["technique"],
        })
    manifest = {
        "version": 1,
        "setup_cmd": "./setup.sh",
        "hooks": {
            "guard": "verif-hooks",
            "enable": "cargo feature: darklua = { path = \"/repo\", features = [\"verif-hooks\"] } (harness/Cargo.toml)",
            "baseline_off_cmd": "cd /repo && cargo test --workspace --no-fail-fast --offline",
            "source_commits": [l.strip() for l in open(os.path.join(C.ROOT, "hook_commits.txt")) if l.strip()],
            "add_only": True,
        },
        "engines": [{
            "name": "coq-model+correspondence",
            "path": "/verif/check",
            "serves_properties": [c["property_id"] for c in checks],
            "kind_free_text": "Coq 8.16 theorems over hand-written Gallina models (coq/), tied to /repo by a Rust harness "
                              "(harness/, feature verif-hooks) whose outputs are compared with the model evaluated by "
                              "vm_compute inside coqc on every run; tables dumped from the code are re-checked by reflection",
        }],
        "checks": checks,
        "not_applicable": na,
        "notes": "Known findings: /verif/known_findings.txt. Design: /verif/DESIGN.md.",
    }
    with open(os.path.join(C.ROOT, "MANIFEST.json"), "w") as f:
        json.dump(manifest, f, indent=1)
    print("MANIFEST.json: %d checks, %d not claimed" % (len(checks), len(na)))
    return 0
