"""C02: reference reader of Luau TYPE syntax (specification, trusted), independent of darklua.

Written from Luau's Parser.cpp (parseType / parseSimpleType / parseTypeSuffix / parseReturnType), for the
shapes the type stream generates:

  type    ::= simple { '|' simple | '&' simple | '?' }        -- mixing '|' or '?' with '&' at one level is an ERROR
  simple  ::= Name | 'nil' | String | 'typeof' '(' ... ')' | '{' Name ':' type '}' | '{' type '}'
            | '(' [type {',' type}] ')' [ '->' return ]        -- without '->': exactly one type (parentheses)
  return  ::= '...' type | '(' [type {',' type}] ')' [ '->' return ] suffix | type
              -- a '(' list without '->': one element = that type (then a suffix may follow), else a type pack

A function type's return reads a FULL type, so `() -> A | B` is `() -> (A | B)`; `T?` adds nil to the union being
read.  Trees are compared after the meaning-preserving normalisation: Optional(x) = Union[x, nil], nested unions
(intersections) are flattened, a type pack of one type is that type, parentheses are transparent.
"""
import re

TOKEN = re.compile(r"\s*(->|::|\.\.\.|'[^']*'|\"[^\"]*\"|[A-Za-z_][A-Za-z0-9_]*|[|&?(){}<>,:=.])")


class TypeSyntaxError(Exception):
    pass


def tokenize(text):
    out = []
    pos = 0
    text = text.rstrip()
    while pos < len(text):
        m = TOKEN.match(text, pos)
        if not m:
            raise TypeSyntaxError("cannot tokenize at %r" % text[pos:pos + 20])
        out.append(m.group(1))
        pos = m.end()
    return out


class Reader:
    def __init__(self, toks):
        self.t = toks
        self.i = 0

    def peek(self):
        return self.t[self.i] if self.i < len(self.t) else None

    def next(self):
        tok = self.peek()
        if tok is None:
            raise TypeSyntaxError("unexpected end")
        self.i += 1
        return tok

    def expect(self, tok):
        got = self.next()
        if got != tok:
            raise TypeSyntaxError("expected %r got %r" % (tok, got))

    def type(self):
        return self.suffix(self.simple())

    def suffix(self, first):
        parts = [first]
        union = inter = False
        while True:
            tok = self.peek()
            if tok == "|":
                self.next()
                parts.append(self.simple())
                union = True
            elif tok == "?":
                self.next()
                parts.append(("nil",))
                union = True
            elif tok == "&":
                self.next()
                parts.append(self.simple())
                inter = True
            else:
                break
            if union and inter:
                raise TypeSyntaxError("mixing union and intersection types without parentheses")
        if union:
            return ("union", parts)
        if inter:
            return ("inter", parts)
        return first

    def type_list(self):
        """after '(' : types up to ')'"""
        items = []
        if self.peek() == ")":
            self.next()
            return items
        while True:
            items.append(self.type())
            tok = self.next()
            if tok == ")":
                return items
            if tok != ",":
                raise TypeSyntaxError("expected , or ) got %r" % tok)

    def simple(self):
        tok = self.next()
        if tok == "nil":
            return ("nil",)
        if tok == "typeof":
            self.expect("(")
            depth = 1
            while depth:
                t = self.next()
                depth += (t == "(") - (t == ")")
            return ("typeof",)
        if tok[0] in "'\"":
            return ("lit",)
        if tok == "{":
            if self.i + 1 < len(self.t) and self.t[self.i + 1] == ":":
                self.next()
                self.next()
                inner = self.type()
                self.expect("}")
                return ("table", inner)
            inner = self.type()
            self.expect("}")
            return ("array", inner)
        if tok == "(":
            items = self.type_list()
            if self.peek() == "->":
                self.next()
                return ("fun", items, self.ret())
            if len(items) != 1:
                raise TypeSyntaxError("a type pack where a type is expected")
            return items[0]
        if re.match(r"[A-Za-z_]", tok) and tok not in ("true", "false"):
            return ("name", tok)
        raise TypeSyntaxError("unexpected %r" % tok)

    def ret(self):
        if self.peek() == "...":
            self.next()
            return ("variadic", self.type())
        if self.peek() == "(":
            self.next()
            items = self.type_list()
            if self.peek() == "->":
                self.next()
                return ("type", self.suffix(("fun", items, self.ret())))
            if len(items) == 1:
                return ("type", self.suffix(items[0]))
            return ("pack", items)
        return ("type", self.type())


def read_type(text):
    r = Reader(tokenize(text))
    t = r.type()
    if r.peek() is not None:
        raise TypeSyntaxError("trailing tokens %r" % r.t[r.i:r.i + 4])
    return t


def from_code(code):
    """the harness's prefix code -> tree (same constructors as the reader)"""
    toks = code.split(",")
    pos = [0]

    def ty():
        t = toks[pos[0]]
        pos[0] += 1
        if t in ("A", "B", "C", "Q", "S"):
            return ("name", t)
        if t == "N":
            return ("nil",)
        if t == "L":
            return ("lit",)
        if t == "Y":
            return ("typeof",)
        if t == "O":
            return ("optional", ty())
        if t[0] == "U":
            return ("union", [ty() for _ in range(int(t[1:]))])
        if t[0] == "I":
            return ("inter", [ty() for _ in range(int(t[1:]))])
        if t[0] == "F":
            args = [ty() for _ in range(int(t[1:]))]
            r = toks[pos[0]]
            if r == "V":
                pos[0] += 1
                return ("fun", args, ("variadic", ty()))
            if r[0] == "K":
                pos[0] += 1
                return ("fun", args, ("pack", [ty() for _ in range(int(r[1:]))]))
            return ("fun", args, ("type", ty()))
        if t == "R":
            return ("array", ty())
        if t == "T":
            return ("table", ty())
        raise ValueError("bad type code %r" % t)
    return ty()


def normalize(t):
    k = t[0]
    if k == "optional":
        return normalize(("union", [t[1], ("nil",)]))
    if k in ("union", "inter"):
        parts = []
        for x in t[1]:
            x = normalize(x)
            if x[0] == k:
                parts.extend(x[1])
            else:
                parts.append(x)
        return (k, tuple(parts))
    if k == "fun":
        r = t[2]
        if r[0] == "pack" and len(r[1]) == 1:
            r = ("type", r[1][0])
        if r[0] == "pack":
            r = ("pack", tuple(normalize(x) for x in r[1]))
        else:
            r = (r[0], normalize(r[1]))
        return ("fun", tuple(normalize(x) for x in t[1]), r)
    if k in ("array", "table"):
        return (k, normalize(t[1]))
    return tuple(t)


def check(code, text):
    """-> None when `text` (a type) reads back, by the reference reader, as the tree `code`; else a description"""
    try:
        got = normalize(read_type(text))
    except TypeSyntaxError as ex:
        return "reference Luau type reader rejects the text: %s" % ex
    want = normalize(from_code(code))
    if got != want:
        return "reference Luau type reader reads a different type"
    return None


# ---- parenthesisation rules (specification): where a member MUST be wrapped ------------------------------
def required(container, position, child):
    """Luau: a function type anywhere but last swallows what follows; an optional / union inside an
    intersection (and an intersection inside a union or an optional) mixes the operators; a function type
    under '?' would make '?' apply to its return type"""
    child = "function" if child.startswith("function") else child
    if container == "optional":
        # (a union under '?' may lose its parentheses without changing the meaning: A|B? = (A|B)?)
        return child in ("intersection", "function")
    if container == "union":
        if child == "intersection":
            return True
        return child == "function" and position != "last"
    if container == "intersection":
        if child in ("union", "optional"):
            return True
        return child == "function" and position != "last"
    return False
