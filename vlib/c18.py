"""C18 - comment and whitespace rules never touch code."""
import json
import random
import re

from . import common as C
from . import c03_gen as G
from . import c18_lex as L

META = {
    "title": "Comment and whitespace rules never touch code",
    "level": "proof",
    "design_ref": "DESIGN.md section 6 / C03-C04-C18",
    "technique": "Coq proof that the comment trivia built by append_text_comment (Gallina transcription of text()) is "
                 "read by a reference comment lexer as exactly one comment, and that the trivia filters keep code "
                 "tokens; model tied to the Rust code through hooks evaluated inside Coq; end-to-end runs through "
                 "darklua_core::process checked by an independent reference Lua lexer",
    "level_text": "Machine-checked theorems (Coq 8.16 kernel): for every text the "
                  "appended comment is closed exactly where the rule closed it (reference lexers written from the Lua "
                  "manual: Luau/5.2+ and Lua 5.1 with its nested-[[ rule), the text is inside it verbatim, the start shift equals the lines inserted, and the token "
                  "level filters keep code and remove exactly the selected comments (_partial: the per-node visitors, "
                  "the parser and the re-lexing of generated text are exercised, not proved). The remaining generator "
                  "defects are proved to be real (_refuted witnesses) and replayed on the code. Every run compares the model with "
                  "the compiled Rust functions and re-lexes the output of darklua_core::process with an independent lexer.",
    "level_note": "Trusted: Coq kernel + vm_compute; the reference comment lexer lex_comment in Model/CommentText.v and "
                  "the Python reference lexer vlib/c18_lex.py (specification); Python `re` as the regex oracle for simple "
                  "patterns; harness and hex transport. Not modelled: per-node visitors of remove_comments/remove_spaces, "
                  "the full_moon parser, the token generator's node plumbing (tied by the end-to-end stream only).",
    "trusted_base": ["Coq 8.16.1 kernel, vm_compute", "Model/CommentText.v lex_comment (specification)",
                     "vlib/c18_lex.py reference Lua/Luau lexer (specification)", "Python re as regex oracle",
                     "harness/crates/c18 + hex transport"],
    "allowed_axioms": [],
    "rule": "texts: a fixed list from the property text (closers, openers, trailing `]`, newlines, CR, `--`, empty, "
            "unicode) plus seeded random strings over bracket/equal/newline pieces; non-trivial when the text contains one "
            "of []=-\\r\\n or a non-ASCII byte; distinct by text bytes. Runs: text x {start,end} x file shapes x generators, "
            "remove_comments x except sets / remove_spaces / pipelines over generated sources with trivia in every gap; "
            "non-trivial when the source holds at least one comment or the text is non-empty; distinct by (config, source)",
    "assumptions": ["a short comment ends at LF or CR or end of input; a long comment at the first matching closer "
                    "(Lua 5.1 manual 2.1, PUC-Rio llex.c, Luau Lexer.cpp)",
                    "after a line comment the generated file continues with a line break or ends (generator's uncomment)"],
}

PREAMBLE = """From DL Require Import Lib.Bytes Model.CommentText.
Open Scope N_scope.
Open Scope string_scope.
(* case: (text hex, (comment hex from Rust, (single flag, lines count))) *)
Definition T := (string * (string * (bool * nat)))%type.
Definition c_text (c : T) := unhex (fst c).
Definition c_comment (c : T) := unhex (fst (snd c)).
Definition model_ok (c : T) : bool :=
  bytes_eqb (comment_of (c_text c)) (c_comment c)
  && Bool.eqb (is_single_line_comment (c_comment c)) (fst (snd (snd c)))
  && Nat.eqb (lines_count (c_comment c)) (snd (snd (snd c))).
(* property-level oracle on the implementation's comment: the reference lexer consumes exactly it,
   whether nothing or a line break follows *)
Definition oracle_ok (c : T) : bool :=
  match c_comment c with
  | [] => match c_text c with [] => true | _ => false end
  | k =>
    match lex_comment (List.app k [10; 120]), lex_comment k, lex_comment51 (List.app k [10; 120]) with
    | Some a, Some b, Some c => Nat.eqb a (List.length k) && Nat.eqb b (List.length k) && Nat.eqb c (List.length k)
    | _, _, _ => false
    end
  end.
Definition check_case (c : T) : bool := model_ok c && oracle_ok c.
Definition diag_case (c : T) : string :=
  ((if model_ok c then "model=ok" else "model=" ++ tohex (comment_of (c_text c))) ++
   (if oracle_ok c then " oracle=ok" else " oracle=FAIL"))%string.
"""

PREAMBLE_CLASSIFY = """From DL Require Import Lib.Bytes Model.CommentText.
Open Scope N_scope.
Open Scope string_scope.
Definition check_case (c : string * bool) : bool := Bool.eqb (is_single_line_comment (unhex (fst c))) (snd c).
Definition diag_case (c : string * bool) : string :=
  if is_single_line_comment (unhex (fst c)) then "model=single" else "model=multi".
"""

FIXED_TEXTS = [
    "hello", " hello ", "]]", "]=]", "a]]b", "x]=]y", "]==]", "[[", "[[ hello", "[=[", "[=[ x", "[==[ deep", "[", "[=", "[a[",
    "[ [", "[=a[", "]", "x]", "x]=", "]==", "--", "-- nested", "--[[", "--[[ x ]]", "a\nb", "a\n", "\n", "\nb", "a\r\nb",
    "a\rb", "\r", "a\r", "a\rprint(2)", "]]\n]=]", "x]\ny]", "x]=\ny]]", "[[\n]]", "line1\nline2 ]] ]=] ]==]\n",
    "é✓", "é\nü", "", " ", "\t", "'\"`", "{}", "a\\nb", "]]\n", "\n]]", "]\n", "]=\n", "x\n]", "x\n]=",
    "[[ hello ]]", "[=[ x ]=]", "[[x]] y", "Copyright (c) 2024\nAll rights reserved.", "[é[", "[===é[ x",
    "é[=[", "end\r\n", "[[\r", "\n\n\n", "]]]]", "]=]=]", "=", "==]", "a\n]]\n]=]\n]==]\n]===]",
    # one line + line break (typical of a `file:` text), line break + one line, CRLF endings
    "header\n", "\nheader", "two\nlines\n", "header\r\n", "two\r\nlines", "two\r\nlines\r\n", "[[ header\n", "a\n[[b",
]

PIECES = ["]", "[", "=", "-", "\n", "\r", "a", " ", "é", "]]", "]=]", "[[", "[=[", "--", "x", "\r\n", "print(1)"]

FILES = [
    "",
    "\n",
    "return 1",
    "local a = 1\nprint(a)\n",
    "local a = 1\n-- last line comment",
    "print(1) -- trailing",
    "--!strict\nlocal a = 1\n",
    "-- only comment\n",
    "local s = [[\nlong\n]]\nreturn s -- x\n--[[ tail ]]",
    "f(a[b[1]])\n",
    "a = 1\r\nb = 2\r\n",
    "local t = {\n  1, -- one\n  2,\n}\n\n\nreturn t\n-- bye\n",
    "print(1)\n-- bye\n",
    "local a = 1;\n",
    "return 1;\n",
    "do return 1 -- c\n ; end\n",
]

# interpolated strings whose hole starts with a table constructor: a space is needed between the two `{`.
# Comments and white space at every trivia position around the braces.
def interpolated_table_sources():
    after_hole_open = [" ", "--[[a]]", " --[[a]] ", "\n", " -- a\n", "--[[a]] "]     # never empty: `{{` is not Lua
    after_table_open = ["", " ", "--[[first]]", " --[[first]] ", " -- f\n", "\n"]
    before_table_close = ["", " ", " --[[last]]", "\n", " --[[last]] "]
    operand = ["", " == nil", " .. 'y'", " :: any", " or {}"]
    before_hole_close = ["", " ", " --[[z]]", "\n", "--[[z]] "]
    out = []
    k = 0
    for a in after_hole_open:
        for b in after_table_open:
            c = before_table_close[k % len(before_table_close)]
            o = operand[k % len(operand)]
            d = before_hole_close[(k // 2) % len(before_hole_close)]
            k += 1
            hole = "{" + a + "{" + b + "1, 2" + c + "}" + o + d + "}"
            out.append("local s = `x" + hole + "y`\nreturn s\n")
    out.append("local s = `{ {--[[first]] 1, 2 } }`\n")
    out.append("return `{ {--[[k]] a = `{ {--[[n]]} }` } }{ --[[h]]{} }tail`\n")
    out.append("f(`{ {}--[[after table]] }`, `{--[[only comment]] {}}`)\n")
    return out


# `except` patterns are regular expressions used AS WRITTEN: leading / trailing white space is part of them.
# Regex features used by this stream (same meaning in Rust `regex` and Python `re`): literals, `^`, `$`, `.`,
# `[...]` classes, `|`, `+`, `\t` `\n` `\[` `\]` escapes, `(?i)`.
SPACED_EXCEPTS = [
    ["^-- "], [" TODO"], ["TODO "], ["\t"], [" "], ["^ "], [" $"], ["   "], ["\\n "], [" \\n"], ["^--\\t"], ["x $"], [" x"],
    ["^--[^ ]"], [" |\t"], ["\\t$"], ["  +$"], ["^-- $"],
]
SPACED_COMMENT_SOURCES = [
    "--print(a)\n-- prose\n--TODO\n-- TODO x\n--\ttab\n-- trailing \nlocal a = 1 --[[ x ]]\nreturn a --TODO \n",
    "-- \n--\n--  \n--x \nlocal b = 2 --[[\n x\n]] -- y\t\nreturn b --[[x ]]\n",
    "local c = { -- TODO first\n  1, --TODO second\n  2, --[==[ TODO\n ]==]\n} --\tTODO\nreturn c\n",
]

EXCEPTS = [
    [], ["^--!"], ["c2", "end$"], ["keep$"], ["^--\\[=*\\["], ["TODO|FIXME"], ["[0-9]+"], ["."], ["^$"], ["é"], ["(?i)KEEP"],
    ["^-- c$"], ["doc", "x"], ["\\]\\]$"], ["^--[^\\[]"],
]


# one key per recorded defect class, named after the class and its canonical witness
KEY_END = "append-end-before-trailing-comments:print(1)\\n--_bye"
KEY_SOURCE_CR = "remove-comments-source-cr:--_a\\rprint(2)"


KEY_CRLF = "remove-comments-crlf-anchor:--_keep\\r\\n"
KEY_RAW = "remove-spaces-ellipsis-after-line-comment:(--c\\n...number)"
KEY_END_SEMI = "append-end-before-semicolon:local_a=1;"
KEY_END_TYPE = "append-end-before-trailing-type:type_T_=_number"
KEY_DOTNUM = "trailing-dot-number-fused:5.--[[c]]end"
KEY_MINUS = "remove-spaces-minus-before-comment:a_-_--_c"


def known_class(text):
    """input-side class of a text.  The two former classes (a single-line text beginning with a long-bracket
    opener, a text with a carriage return) were repaired by /repo d1a6e5c: such texts now go into a long
    comment.  The inputs stay in FIXED_TEXTS / PIECES; a regression is reported unkeyed."""
    return None


def nontrivial_text(t):
    return any(ch in "[]=-\r\n" or ord(ch) > 127 for ch in t)


def gen_texts(rng, n):
    texts = list(FIXED_TEXTS)
    for _ in range(n):
        k = rng.randrange(0, 8)
        texts.append("".join(rng.choice(PIECES) for _ in range(k)))
    seen, out = set(), []
    for t in texts:
        if t not in seen:
            seen.add(t)
            out.append(t)
    return out


def run_harness(sub, rows):
    inp = "\n".join(json.dumps(r) for r in rows) + "\n"
    out = C.harness("dl-c18", [sub], input=inp)
    res = {}
    for line in out.splitlines():
        line = line.strip()
        if line.startswith("{"):
            r = json.loads(line)
            res[r["id"]] = r
    if len(res) != len(rows):
        raise C.CheckBroken("dl-c18 %s answered %d of %d cases" % (sub, len(res), len(rows)))
    return res


def cfg(rules, generator=None):
    c = {"rules": rules}
    if generator:
        c["generator"] = generator
    return json.dumps(c)


def atc(text, location):
    return {"rule": "append_text_comment", "text": text, "location": location}


def rc(patterns):
    return {"rule": "remove_comments", "except": patterns} if patterns else "remove_comments"


def lex_or_none(data):
    try:
        return L.lex(data)
    except L.LexError as ex:
        return ex


def submultiset_in_order(small, big):
    """match `small` into `big` in order (greedy); returns (unmatched_small, leftover_big_indices)"""
    j = 0
    unmatched = []
    used = set()
    for s in small:
        k = j
        while k < len(big) and big[k] != s:
            k += 1
        if k < len(big):
            used.add(k)
            j = k + 1
        else:
            unmatched.append(s)
    return unmatched, [i for i in range(len(big)) if i not in used]


class Oracle:
    """Property-level oracle on (source, rules, output); independent of the Coq model of the rules."""

    def __init__(self, src, out):
        self.src = src.encode("utf-8")
        self.out = out.encode("utf-8")
        self.lin = lex_or_none(self.src)
        self.lout = lex_or_none(self.out)

    def code_kept(self):
        if isinstance(self.lin, Exception):
            return None          # the reference lexer rejects the input: not in the domain
        if isinstance(self.lout, Exception):
            return "output does not lex: %s" % self.lout
        a = [t.text for t in self.lin[0]]
        b = [t.text for t in self.lout[0]]
        if a != b:
            k = next((i for i in range(min(len(a), len(b))) if a[i] != b[i]), min(len(a), len(b)))
            return "code tokens differ at #%d: %r vs %r" % (k, a[k:k + 3], b[k:k + 3])
        return None

    def comments_expected(self, expected):
        got = [c.text for c in self.lout[1]]
        if got != expected:
            return "comments differ: expected %r got %r" % (expected[:6], got[:6])
        return None

    def appended(self, text, location):
        """checks for one append_text_comment(text, location) applied to src"""
        tin, cin = self.lin
        tout, cout = self.lout
        tbytes = text.encode("utf-8")
        if text == "":
            return self.comments_expected([c.text for c in cin])
        in_texts = [c.text for c in cin]
        out_texts = [c.text for c in cout]
        if location == "start":
            if not cout or cout[0].start != 0:
                return "no comment at the start of the output"
            new = cout[0]
            if tbytes not in new.text:
                return "the text is not inside the first comment %r" % new.text[:60]
            if out_texts[1:] != in_texts:
                return "original comments changed: %r vs %r" % (in_texts[:4], out_texts[1:5])
            rest = self.out[new.end:]
            if rest and not rest.startswith(b"\n"):
                return "the comment is not followed by a line break"
            shift = new.text.count(b"\n") + 1
            for a, b in zip(list(tin) + list(cin), list(tout) + list(cout[1:])):
                if a.line + shift != b.line:
                    return "line of %r moved by %d, expected %d" % (a.text[:30], b.line - a.line, shift)
            return None
        # end
        unmatched, leftover = submultiset_in_order(in_texts, out_texts)
        if len(leftover) != 1:
            return "expected exactly one new comment, found %d (%r)" % (len(leftover), [out_texts[i] for i in leftover][:3])
        new = cout[leftover[0]]
        if tbytes not in new.text:
            return "the text is not inside the new comment %r" % new.text[:60]
        if len(unmatched) > 1 or (unmatched and unmatched[0] not in new.text):
            return "original comments lost: %r" % unmatched[:3]
        for a, b in zip(tin, tout):
            if a.line != b.line:
                return "location end moved code %r from line %d to %d" % (a.text[:30], a.line, b.line)
        return None

    def end_comment_lines(self):
        """location end: original comments keep their line"""
        cin, cout = self.lin[1], self.lout[1]
        out_by_text = {}
        for c in cout:
            out_by_text.setdefault(c.text, []).append(c.line)
        for c in cin:
            lines = out_by_text.get(c.text)
            if lines is None:
                continue    # merged with the appended comment
            if c.line not in lines:
                return "location end moved comment %r from line %d to %s" % (c.text[:30], c.line, lines)
        return None


def py_regex_keep(patterns):
    regs = [re.compile(p) for p in patterns]

    def keep(comment_bytes):
        s = comment_bytes.decode("utf-8", errors="replace")
        return any(r.search(s) for r in regs)
    return keep


def has_cr_in_line_comment(src):
    data = src.encode("utf-8")
    i = 0
    while True:
        i = data.find(b"--", i)
        if i < 0:
            return False
        if L.long_bracket_level(data, i + 2) is None:
            j = i
            while j < len(data) and data[j] != 0x0A:
                if data[j] == 0x0D and not data.startswith(b"\r\n", j):
                    return True
                j += 1
            i = j
        else:
            i += 2


def minus_before_comment(src):
    """a token ending in `-` separated from a following comment by white space only"""
    data = src.encode("utf-8")
    try:
        toks, comments = L.lex(data)
    except L.LexError:
        return False
    ends = {t.end: t for t in toks}
    for c in comments:
        j = c.start
        while j > 0 and data[j - 1] in L.SPACE:
            j -= 1
        t = ends.get(j)
        if t is not None and t.text.endswith(b"-"):
            return True
    return False


def ellipsis_after_line_comment(src):
    """a line comment whose next code token is `...` (the variadic type pack's `...` is pushed raw)"""
    data = src.encode("utf-8")
    try:
        toks, comments = L.lex(data)
    except L.LexError:
        return False
    starts = sorted(t.start for t in toks)
    by_start = {t.start: t for t in toks}
    import bisect
    for c in comments:
        if L.long_bracket_level(data, c.start + 2) is not None:
            continue
        k = bisect.bisect_left(starts, c.end)
        if k < len(starts) and by_start[starts[k]].text == b"...":
            return True
    return False


def dot_number_before_word(src):
    """a number written with a trailing dot (`5.`) whose next code token is a word"""
    try:
        toks, _ = L.lex(src.encode("utf-8"))
    except L.LexError:
        return False
    for a, b in zip(toks, toks[1:]):
        if a.kind == "number" and a.text.endswith(b".") and b.kind == "name":
            return True
    return False


def joined(comments):
    return b"".join(comments)


def clean_replays(prop):
    import glob
    import os
    for p in glob.glob(os.path.join(C.REPLAYS, prop + "-*.json")):
        os.remove(p)


def run(ctx):
    clean_replays(ctx.prop)
    C.build_harness("dl-c18")
    proofs_ok = C.proof_gate(ctx)
    rng = random.Random(ctx.seed)
    quick = ctx.tier == "quick"

    # ---------------------------------------------------------------- stream A: model = code (hooks)
    texts = gen_texts(rng, 150 if quick else 3000)
    rows = [{"id": i, "text": t} for i, t in enumerate(texts)]
    res = run_harness("text", rows)
    cases = []
    for i, t in enumerate(texts):
        r = res[i]
        term = "(%s, (%s, (%s, %d%%nat)))" % (C.coq_string(r["text"]), C.coq_string(r["comment"]),
                                             "true" if r["single"] else "false", r["lines"])
        cases.append((i, term))
    bad = C.run_coq_cases(ctx.prop, PREAMBLE, cases, chunk=120 if quick else 400)
    ctx.stream("append_text_comment text(): model vs Rust (comment bytes, generator classification, shift) and the "
               "Coq reference lexer on the Rust comment", len(cases), sum(1 for t in texts if nontrivial_text(t)),
               [{"text": t, "comment": bytes.fromhex(res[i]["comment"]).decode("utf-8", "replace")}
                for i, t in list(enumerate(texts))[5:8]], mismatches=len(bad))
    model_mismatch = []
    for cid, diag in bad:
        t = texts[cid]
        if "oracle=FAIL" in diag:
            ctx.violation("the comment built for the text is not read back as exactly one comment by the reference lexer",
                          {"text": t, "comment_hex": res[cid]["comment"],
                           "comment": bytes.fromhex(res[cid]["comment"]).decode("utf-8", "replace"), "diag": diag,
                           "replay": "rule append_text_comment with this text on any file; see stream B"},
                          key=known_class(t))
        if "model=ok" not in diag:
            model_mismatch.append((t, res[cid], diag))

    # classifier on arbitrary comment-like strings
    cls = ["--", "--[", "--[[", "--[=[", "--[==[", "--[===[", "--[====[", "--[=====[x", "--[a[", "--[ab[", "--[abc[", "--[abcd[",
           "--[=a=[", "--[====a[", "--[=", "--[==", "--x[[", "-- [[", "--[é[", "--[ééé[", "--[===é[",
           "--[é==[", "--[[\n]]", "--[=[ x ]=]", "--[ [", "--[]", "--[][", "--[=]["]
    for _ in range(60 if quick else 1500):
        cls.append("--[" + "".join(rng.choice(["=", "=", "[", "a", "é", " ", "]", "✓"]) for _ in range(rng.randrange(8))))
    cls = list(dict.fromkeys(cls))
    cres = run_harness("classify", [{"id": i, "text": t} for i, t in enumerate(cls)])
    ccases = [(i, "(%s, %s)" % (C.coq_string(cres[i]["text"]), "true" if cres[i]["single"] else "false"))
              for i in range(len(cls))]
    cbad = C.run_coq_cases(ctx.prop, PREAMBLE_CLASSIFY, ccases, chunk=200, tag="classify")
    ctx.stream("is_single_line_comment: model vs Rust", len(ccases), sum(1 for t in cls if "[" in t[3:]),
               [{"comment": t, "single": cres[i]["single"]} for i, t in list(enumerate(cls))[8:10]], mismatches=len(cbad))
    for cid, diag in cbad:
        model_mismatch.append((cls[cid], cres[cid], diag))

    # ---------------------------------------------------------------- stream B: end to end
    jobs = []      # (kind, meta, config, src)

    def job(kind, meta, config, src):
        jobs.append((kind, meta, config, src))

    run_texts = texts if not quick else texts[:len(FIXED_TEXTS)] + texts[len(FIXED_TEXTS)::4]
    gen_sources = []
    for i in range(24 if quick else 200):
        nl = "\r\n" if i % 6 == 5 else "\n"
        src, _, _, _ = G.program(rng, mode="random", newline=nl, density=3)
        gen_sources.append(src)
    files = list(FILES) + gen_sources[:3]
    for ti, t in enumerate(run_texts):
        for loc in ("start", "end"):
            fs = files if (not quick or ti < len(FIXED_TEXTS)) else [files[(ti + k) % len(files)] for k in range(3)]
            for f in fs:
                job("append", {"text": t, "location": loc}, cfg([atc(t, loc)]), f)
    # location end on files whose last code token belongs to every node kind (the comment must come after it)
    for label, src in G.last_token_sources():
        for t in ("hi", "two\nlines"):
            job("append-last", {"text": t, "location": "end", "label": label}, cfg([atc(t, "end")]), src)
    # pipelines with the other two rules
    for ti, t in enumerate(run_texts[:40]):
        f = files[ti % len(files)]
        job("append+spaces", {"text": t, "location": "start"}, cfg([atc(t, "start"), "remove_spaces"]), f)
        job("append+spaces", {"text": t, "location": "end"}, cfg(["remove_spaces", atc(t, "end")]), f)
    special_sources = [
        "--!strict\nlocal a = 1 -- c1\n--[[ c2 ]] local b = a --[=[ c3\n ]=] + 2\nreturn a, b -- end",
        "local b = a - --[[x]]- 2\nlocal c = a[ --[[x]][[s]]]\nlocal d = 1 --[[k]]..2\n",
        "-- TODO keep\n-- FIXME 123\nlocal x = 1 -- é\nreturn x --[==[ KEEP ]==]\n",
        "local x = a - -- c\n b()\n",
        "-- keep\r\nlocal a = 1 -- keep\r\nreturn a --[[ keep ]]\r\n",
        "local y = a - --[[c]] b\nreturn - --[[d]] y\n",
        "type F = (--c\n...number) -> ()\nlocal x = 1\n",
        "if x then return 5.--[[c]]end\n",
        "local t = {} --[a[ odd\n--[==[ multi\nline ]==] t.x = 1\n",
    ] + list(G.TYPED_SOURCES)
    sources = [s for s in G.FIXED_SOURCES] + special_sources + gen_sources
    cr_sources = ["-- a\rprint(2)\nprint(1)\n", "print(1) -- a\rprint(2)\r"]
    for si, s in enumerate(SPACED_COMMENT_SOURCES + gen_sources[:4]):
        for ei, ex in enumerate(SPACED_EXCEPTS):
            if quick and si >= len(SPACED_COMMENT_SOURCES) and (si + ei) % 3:
                continue
            job("remove_comments", {"except": ex}, cfg([rc(ex)]), s)
            if (si + ei) % 4 == 0:
                job("comments+spaces", {"except": ex}, cfg([rc(ex), "remove_spaces"]), s)
    for si, s in enumerate(interpolated_table_sources()):
        job("remove_spaces", {}, cfg(["remove_spaces"]), s)
        job("remove_comments", {"except": []}, cfg([rc([])]), s)
        job("comments+spaces", {"except": []}, cfg([rc([]), "remove_spaces"]), s)
        job("spaces+comments", {"except": []}, cfg(["remove_spaces", rc([])]), s)
        ex = [["first"], ["^--\\[\\[a"], ["z|last"]][si % 3]
        job("comments+spaces", {"except": ex}, cfg([rc(ex), "remove_spaces"]), s)
        job("spaces+comments", {"except": ex}, cfg(["remove_spaces", rc(ex)]), s)
    for si, s in enumerate(sources + cr_sources):
        for ei, ex in enumerate(EXCEPTS):
            if quick and (si + ei) % 3 and si >= len(G.FIXED_SOURCES) + len(special_sources) and s not in cr_sources:
                continue
            job("remove_comments", {"except": ex}, cfg([rc(ex)]), s)
        job("remove_spaces", {}, cfg(["remove_spaces"]), s)
        ex = EXCEPTS[si % len(EXCEPTS)]
        job("comments+spaces", {"except": ex}, cfg([rc(ex), "remove_spaces"]), s)
        job("spaces+comments", {"except": ex}, cfg(["remove_spaces", rc(ex)]), s)
    # other generators: the rules must make no difference to the code tokens
    for gname in ("dense", "readable"):
        for si, s in enumerate(sources[:40] if quick else sources):
            t = run_texts[si % len(run_texts)]
            for rules in ([atc(t, "start")], [atc(t, "end")], [rc(EXCEPTS[si % len(EXCEPTS)])], ["remove_spaces"]):
                if quick and (si % 2):
                    continue
                job("generator:" + gname, {"rules": rules, "generator": gname}, cfg(rules, gname), s)
                job("generator-base:" + gname, {"generator": gname}, cfg([], gname), s)

    # baseline: the same source with no rule (what the parser + generator do on their own is C03's
    # subject; the oracle below isolates the effect of the rules by comparing with this output)
    for s in list(dict.fromkeys(j[3] for j in jobs if not j[0].startswith("generator"))):
        job("baseline", {}, cfg([]), s)
    rows = [{"id": i, "config": j[2], "src": j[3]} for i, j in enumerate(jobs)]
    res = run_harness("run", rows)
    baseline = {}
    baseline_differs = 0
    for i, (kind, meta, config, src) in enumerate(jobs):
        if kind == "baseline" and res[i]["ok"]:
            baseline[src] = res[i]["out"]
            if res[i]["out"] != src:
                baseline_differs += 1
    counts = {}
    nontriv = {}
    seen = set()
    errors = 0
    error_samples = {}
    base_out = {}
    for i, (kind, meta, config, src) in enumerate(jobs):
        if kind.startswith("generator-base:") and res[i]["ok"]:
            base_out[(kind.split(":")[1], src)] = res[i]["out"]
    samples = {}
    for i, (kind, meta, config, src) in enumerate(jobs):
        r = res[i]
        if kind.startswith("generator-base:") or kind == "baseline":
            continue
        if (config, src) in seen:
            continue
        seen.add((config, src))
        if not r["ok"]:
            errors += 1
            error_samples.setdefault(r["err"][:80], src[:80])
            if r.get("panic"):
                ctx.violation("darklua panicked", {"config": config, "source": src}, key=None)
            continue
        out = r["out"]
        replay = {"config": json.loads(config), "source": src, "output": out,
                  "replay": "echo '{\"id\":0,\"config\":<config as string>,\"src\":<source>}' | harness/target/release/dl-c18 run"}
        counts[kind] = counts.get(kind, 0) + 1
        ref = baseline.get(src, src)
        if ref != src:
            replay["output_without_rules"] = ref
        o = Oracle(ref, out)
        if isinstance(o.lin, Exception):
            continue
        has_comment = bool(o.lin[1])
        problem = None
        key = None
        if kind == "append-last":
            text = meta["text"]
            nontriv[kind] = nontriv.get(kind, 0) + 1
            problem = o.code_kept()
            if problem is None:
                problem = o.appended(text, "end")
            if problem is None:
                # the input is a prefix of the output and the remainder is nothing but the comment
                if not out.startswith(ref):
                    k = next((i for i in range(min(len(ref), len(out))) if ref[i] != out[i]), min(len(ref), len(out)))
                    problem = "the input is not a prefix of the output (first difference at %d: %r)" % (k, out[max(0, k - 20):k + 20])
                else:
                    rt, rc_ = L.lex(out[len(ref):].encode("utf-8"))
                    if rt or len(rc_) != 1 or text.encode("utf-8") not in rc_[0].text:
                        problem = "what follows the input is not just the comment: %r" % out[len(ref):][:60]
            if problem is not None and L.ends_in_type_annotation(src):
                key = KEY_END_TYPE
            samples.setdefault(kind, {"label": meta["label"], "text": text, "source": src[-60:], "output": out[-80:]})
        elif kind == "append" or kind == "append+spaces":
            text, loc = meta["text"], meta["location"]
            if text or has_comment:
                nontriv[kind] = nontriv.get(kind, 0) + 1
            problem = o.code_kept()
            if problem is None:
                if kind == "append":
                    problem = o.appended(text, loc)
                else:
                    # white space is gone: the text must be in exactly one new comment, code unchanged
                    tb = text.encode("utf-8")
                    inc = [c.text for c in o.lin[1]]
                    outc = [c.text for c in o.lout[1]]
                    # (line comments that lose the line break between them are written as one comment)
                    if text and not any(tb in c for c in outc):
                        problem = "the text is in no comment of the output"
                    else:
                        hay, pos = joined(outc), 0
                        for piece in inc:
                            k = hay.find(piece, pos)
                            if k < 0:
                                problem = "original comment %r is gone: %r" % (piece[:30], outc[:4])
                                break
                            pos = k + len(piece)
                        extra = len(hay) - len(joined(inc))
                        if problem is None and not (len(tb) <= extra <= 3 * len(tb) + 10 or not text and extra == 0):
                            problem = "comment bytes changed by %d for a text of %d bytes" % (extra, len(tb))
            if problem is not None:
                key = known_class(text)
                if key is None and kind == "append+spaces" and minus_before_comment(src):
                    key = KEY_MINUS
                if key is None and kind == "append+spaces" and dot_number_before_word(src):
                    key = KEY_DOTNUM
                if key is None and loc == "end" and "moved code b';'" in problem:
                    key = KEY_END_SEMI
                if key is None and loc == "end" and L.ends_in_type_annotation(src):
                    key = KEY_END_TYPE
            elif kind == "append" and loc == "end" and text:
                p2 = o.end_comment_lines()
                if p2 is not None:
                    problem, key = p2, KEY_END
            samples.setdefault(kind, {"text": text, "location": loc, "source": src[:60], "output": out[:80]})
        elif kind in ("remove_comments", "comments+spaces", "spaces+comments"):
            if has_comment:
                nontriv[kind] = nontriv.get(kind, 0) + 1
            problem = o.code_kept()
            if problem is None:
                keep = py_regex_keep(meta["except"])
                expected = [c.text for c in o.lin[1] if keep(c.text)]
                if kind == "remove_comments":
                    problem = o.comments_expected(expected)
                elif joined(expected) != joined([c.text for c in o.lout[1]]):
                    # without white space two line comments can be written as one: compare the bytes
                    problem = "comment bytes differ: expected %r got %r" % (expected[:5], [c.text for c in o.lout[1]][:5])
            if problem is not None and problem.startswith("comment") and "\r\n" in src:
                # darklua's view of a line comment in a CRLF file includes the CR
                data = o.src
                alt = [c.text for c in o.lin[1]
                       if keep(c.text + (b"\r" if data[c.end:c.end + 2] == b"\r\n"
                                         and L.long_bracket_level(c.text, 2) is None else b""))]
                if joined(alt) == joined([c.text for c in o.lout[1]]):
                    key = KEY_CRLF
            if problem is not None and problem.startswith("code") and dot_number_before_word(src):
                key = KEY_DOTNUM
            if problem is not None and has_cr_in_line_comment(src):
                key = KEY_SOURCE_CR
            elif problem is not None and kind != "remove_comments" and minus_before_comment(src):
                key = KEY_MINUS
            elif problem is not None and kind != "remove_comments" and ellipsis_after_line_comment(src):
                key = KEY_RAW
            samples.setdefault(kind, {"except": meta["except"], "source": src[:60], "output": out[:80]})
        elif kind == "remove_spaces":
            if has_comment:
                nontriv[kind] = nontriv.get(kind, 0) + 1
            problem = o.code_kept()
            if problem is None and joined([c.text for c in o.lin[1]]) != joined([c.text for c in o.lout[1]]):
                problem = "comment bytes differ: %r vs %r" % ([c.text for c in o.lin[1]][:5], [c.text for c in o.lout[1]][:5])
            if problem is not None and minus_before_comment(src):
                key = KEY_MINUS
            elif problem is not None and ellipsis_after_line_comment(src):
                key = KEY_RAW
            elif problem is not None and dot_number_before_word(src):
                key = KEY_DOTNUM
        elif kind.startswith("generator:"):
            gname = kind.split(":")[1]
            base = base_out.get((gname, src))
            if base is None:
                continue
            nontriv[kind] = nontriv.get(kind, 0) + (1 if has_comment else 0)
            ob = Oracle(base, out)
            if isinstance(ob.lin, Exception):
                continue
            problem = ob.code_kept()
            if problem is not None:
                text = next((x["text"] for x in meta["rules"] if isinstance(x, dict) and "text" in x), None)
                key = known_class(text) if text is not None else None
                replay["output_without_rules"] = base
        if problem is not None:
            replay["problem"] = problem
            ctx.violation("%s: %s" % (kind, problem), replay, key=key)
    for kind in sorted(counts):
        ctx.stream("process: " + kind, counts[kind], nontriv.get(kind, 0), [samples[kind]] if kind in samples else [])
    ctx.cov["streams"]["process: errors (input rejected by darklua, nothing to check)"] = {
        "evaluations": errors, "distinct_nontrivial": 0, "kinds": error_samples}
    ctx.cov["streams"]["process: sources whose no-rule output already differs from the source (C03's subject; the "
                       "no-rule output is then the reference)"] = {"evaluations": baseline_differs, "distinct_nontrivial": 0}

    if model_mismatch and not ctx.violations:
        t, r, diag = model_mismatch[0]
        ctx.violation("correspondence broken: the Rust code differs from Model/CommentText.v (theorems no longer apply "
                      "to the code); the end-to-end oracle found no failing input",
                      {"stream": "model-vs-code", "input": t, "rust": r, "diag": diag, "mismatches": len(model_mismatch)},
                      found_input=False)
    if not proofs_ok and not ctx.violations:
        failed = [n for n, ok, _ in ctx.obligations if not ok]
        ctx.violation("proof obligation no longer checks: " + "; ".join(failed), {"obligations": failed}, found_input=False)


def replay(ctx, path):
    r = json.load(open(path))
    print(json.dumps(r, indent=1))
    rep = r.get("replay", {})
    if "config" in rep and "source" in rep:
        C.build_harness("dl-c18")
        res = run_harness("run", [{"id": 0, "config": json.dumps(rep["config"]), "src": rep["source"]}])
        print("darklua output now:", json.dumps(res[0]))
    return 0
