"""C17 - Removal and injection rules change exactly what they name."""
import re

from . import common as C
from . import rulecheck
from . import removal_gen

META = {
    "title": "Removal and injection rules change exactly what they name",
    "level": "proof",
    "design_ref": "DESIGN.md section 6 / C17",
    "technique": "Coq theorems on the local rewrites (relational: original node in the modified environment vs replacement) "
                 "against the reference Lua semantics + Gallina models of the rules tied to the Rust code + whole-program "
                 "translation validation in the Coq reference interpreter",
    "level_text": "Machine-checked LOCAL theorems (Coq, 31 statements in Properties/C17.v) about the Gallina models "
                  "(Model/Removal.v) of what remove_assertions, remove_debug_profiling and inject_global_value put in place "
                  "of a node, against the fuel-indexed reference semantics, for every dialect, fuel, environment, varargs and "
                  "store: the value-position replacement `(e or true) and nil` evaluates each kept argument once, in order, "
                  "and yields nil (and can do nothing else); a removed call of a no-op / of `function(...) return ... end` in "
                  "value position (assert(): nil, assert(e): e with all values, assert(e1, e2, ..): select(1, ..)) and in "
                  "statement position (kept calls become call statements: same environment, same store; a kept non-call "
                  "becomes `local _ = e`: one more cell and a binding of `_`); reading an unshadowed global holding a "
                  "scalar equals evaluating the injected literal, also for `_G.x`, `_G[\"x\"]` and in prefix position; "
                  "arrays/objects evaluate to a fresh table with the configured content (C14's serializer theorem). Six "
                  "`_refuted` witnesses state the recorded findings. On every run the models (incl. the ScopeVisitor / "
                  "IdentifierTracker traversal, the visit-order dependent `select` reservation and the JSON value "
                  "conversion) are compared with the real rules on ~8000 templates hitting every arm (block_eqb (model IN) "
                  "OUT inside Coq), and generated programs and observable templates are pushed through the real rules and "
                  "reference (input in the modified environment) and output are executed in the Coq interpreter.",
    "level_note": "Trusted: Coq kernel + vm_compute; Lua/Sem.v (specification); harness dl-rules + astdump. The lifting of "
                  "the local theorems to whole programs (that the traversal rewrites every unshadowed occurrence and nothing "
                  "else, and that local equivalence composes) is NOT proved (partial): whole-program equivalence is "
                  "validated per run, not for all programs.",
    "trusted_base": ["Coq 8.16.1 kernel, vm_compute", "Lua/Sem.v reference semantics + Lib/F64.v (specification)",
                     "standard-library axioms via Flocq (of_Z is a valid binary64), inherited by inject_scalar_expr_sound and "
                     "inject_ident_sound only (their _exact variants for |z| < 2^53 are axiom-free): sig_not_dec, "
                     "sig_forall_dec, functional_extensionality_dep, classic",
                     "harness/crates/rules (program generator) + astdump (AST printer)", "darklua's parser (to read programs)"],
    "allowed_axioms": ["ClassicalDedekindReals.sig_not_dec", "ClassicalDedekindReals.sig_forall_dec",
                       "FunctionalExtensionality.functional_extensionality_dep", "Classical_Prop.classic"],
    "rule": "(1) seeded typed generator of observable programs x remove_assertions, remove_debug_profiling, "
            "inject_global_value (values of every JSON kind); the reference program is the input run in the correspondingly "
            "modified environment (assert := function returning its arguments, profiling functions := no-ops, the global "
            "preset); non-trivial when the reference run gives a verdict and the rules changed the tree. (2) templates: calls "
            "of the targeted functions with 0..5 arguments pure/effectful in tuple/string/table form, in statement, value and "
            "prefix position, look-alikes, every binding construct shadowing assert/debug/select/_G/the injected name at "
            "every scope, visit-order dependent select reservation, 30 JSON values of every kind; non-trivial when model = "
            "code and the rule changed the tree. (3) observable templates incl. the recorded finding shapes: reference run vs "
            "run of the output",
    "assumptions": ["Lua/Sem.v is a faithful reference semantics on the modelled fragment",
                    "the local theorems are not lifted to whole programs (validated per run instead)",
                    "local theorems: dropped (side-effect free) arguments are 'quiet' (their evaluation changes no store: "
                    "literals, locals, `...`, parentheses, not); kept arguments in the exact statement theorem are calls; the "
                    "callee is a no-op / the identity on the evaluated arguments; reading the global runs no metamethod",
                    "models leave out: `const function`, inject_global_value's env/env_json/default_value properties and "
                    "object values that deserialise as a RequireMode (C19 finding), method type instantiations",
                    "recorded findings (known_findings.txt): directly nested removed call survives; removed call in "
                    "multi-value tail position yields one nil; `local _ = v` can shadow a user variable"],
}

def run(ctx):
    C.build_harness("dl-rules")
    proofs_ok = C.proof_gate(ctx, ["Lua/RunCheck.vo", "Lua/KnownClasses.vo", "Lua/Fingerprint.vo", "Model/Refactor.vo",
                                   "Model/Removal.vo", "Model/RemovalKnown.vo", "Model/DefaultRules.vo"])
    n = 400 if ctx.tier == "quick" else 6000
    rulecheck.run_profile(ctx, "c17", n, classify=None)
    # the tie of the local theorems' models (Model/Refactor.v, Model/Removal.v, Model/Visit.v) to the Rust rules
    removal_gen.run_stream(ctx, ctx.prop)
    # property-level oracle on templates (incl. the recorded finding classes)
    removal_gen.run_behaviour(ctx, ctx.prop)
    if not proofs_ok and not ctx.violations:
        failed = [n for n, ok, _ in ctx.obligations if not ok]
        ctx.violation("proof obligation no longer checks: " + "; ".join(failed), {"obligations": failed},
                      found_input=False)


def replay(ctx, path):
    import json
    print(json.dumps(json.load(open(path)), indent=1))
    return 0
