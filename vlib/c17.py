"""C17 - Removal and injection rules change exactly what they name."""
import re

from . import common as C
from . import rulecheck
from . import removal_gen

META = {
    "title": "Removal and injection rules change exactly what they name",
    "level": "proof",
    "design_ref": "DESIGN.md section 6 / C17",
    "technique": "Coq lemmas on local rewrites against the reference Lua semantics + whole-program "
                 "translation validation in the Coq reference interpreter",
    "level_text": "Machine-checked local-equivalence lemmas (Coq) for the rewrites these rules perform, stated against "
                  "the fuel-indexed reference semantics; on every run, generated programs are transformed by the real rules "
                  "(on the tree and end to end through each generator) and original and output are executed in the Coq "
                  "reference interpreter under both dialects and several oracle streams, any difference being the replay.",
    "level_note": "Trusted: Coq kernel + vm_compute; Lua/Sem.v (specification); harness dl-rules + astdump. The lifting of "
                  "local lemmas to whole programs is not proved (partial): whole-program equivalence is validated per run, "
                  "not for all programs.",
    "trusted_base": ["Coq 8.16.1 kernel, vm_compute", "Lua/Sem.v reference semantics + Lib/F64.v (specification)",
                     "harness/crates/rules (program generator) + astdump (AST printer)", "darklua's parser (to read programs)"],
    "allowed_axioms": [],
    "rule": "seeded typed generator of observable programs (closures, upvalues, shadowing, varargs, multiple returns, "
            "metatables with observable metamethods, loops with break, method calls, foldable and dead code) x remove_assertions, remove_debug_profiling, inject_global_value (values of every JSON kind); the reference program is the input run in the correspondingly modified environment (assert := function returning its arguments, profiling functions := no-ops, the global preset); a case is "
            "non-trivial when the reference run gives a verdict (error-free, dialect-independent) and the rules changed the tree",
    "assumptions": ["Lua/Sem.v is a faithful reference semantics on the modelled fragment"],
}

def run(ctx):
    C.build_harness("dl-rules")
    proofs_ok = C.proof_gate(ctx, ["Lua/RunCheck.vo", "Lua/KnownClasses.vo"])
    n = 400 if ctx.tier == "quick" else 6000
    rulecheck.run_profile(ctx, "c17", n, classify=None)
    # the tie of the local theorems' models (Model/Refactor.v, Model/Removal.v, Model/Visit.v) to the Rust rules
    removal_gen.run_stream(ctx, ctx.prop)
    # property-level oracle on templates (incl. the recorded finding classes)
    removal_gen.run_behaviour(ctx, ctx.prop)
    if not proofs_ok and not ctx.violations:
        failed = [n for n, ok, _ in ctx.obligations if not ok]
        ctx.violation("proof obligation no longer checks: " + "; ".join(failed), {"obligations": failed},
                      found_input=False)


def replay(ctx, path):
    import json
    print(json.dumps(json.load(open(path)), indent=1))
    return 0
