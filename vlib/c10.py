"""C10 - incremental reprocessing equals processing from scratch."""
import json
import os
import re
import shutil
import tempfile
from concurrent.futures import ThreadPoolExecutor

from . import common as C

META = {
    "title": "Incremental reprocessing equals processing from scratch",
    "level": "proof",
    "design_ref": "DESIGN.md section 6 / C10",
    "technique": "Coq refinement proof: a Gallina model of WorkerTree (collect_work, source_changed, remove_source, "
                 "add_source, process, clean_files; node indices and free list included) is proved equal to a fresh run "
                 "for every reported history, by an invariant over histories; the model is tied to the Rust WorkerTree by "
                 "comparing its whole state with the state dumped from the real tree after every event",
    "level_text": "Machine-checked theorem (Coq 8.16 kernel): for every history of file-system changes and watcher "
                  "notifications in which every change is reported before the next process, outside the recorded "
                  "finding classes, the files after the last process are exactly those of a fresh run over the final "
                  "inputs and configuration (outputs regenerated, outputs of removed sources deleted, foreign files "
                  "kept), and the model never panics nor runs out of fuel. Each run re-checks model = code on "
                  "exhaustive short and random long histories (items, statuses, registered dependencies, "
                  "external_dependencies, remove_files, output tree) and compares the real output tree with a fresh "
                  "darklua_core::process.",
    "level_note": "The per-file transformation is a section variable with its assumed behaviour as hypotheses (result "
                  "depends only on the source text and the registered dependencies; dependencies exist and lie outside "
                  "the output folder; equal configuration hashes mean equal behaviour). The harness checks these "
                  "hypotheses on the real transformation results it sees. InProgress/edges are not modelled: no shipped "
                  "rule overrides Rule::require_content (checked by grep at every run and by the state dumps). "
                  "Directory pruning of clean_files is modelled and proved separately (it is a no-op on memory "
                  "resources) and exercised on a real temporary directory.",
    "trusted_base": ["Coq 8.16.1 kernel, vm_compute", "Model/Worker.v fresh (specification) and reported (contract)",
                     "harness/crates/c10 + the read-only dump hook WorkerTree::verif_dump",
                     "vlib/c10.py translation of harness events into model events"],
    "allowed_axioms": [],
    "rule": "histories over a project of 4 sources in nested directories (one bundle entry requiring a 3-module DAG, "
            "two modules outside the input), 3 foreign files in the output folder and 6 configurations (rules, rule "
            "filters, generator): every valid history up to length 3 over a reduced alphabet (quick) or 4 (thorough), "
            "every valid history up to length 2 over the full alphabet, 182 break/repair/touch histories (each bundled file "
            "- direct, transitive, data file, internal source - broken by a parse error, removal or a require cycle, "
            "repaired to the original or to new content, and every file of the dependency graph touched while broken and "
            "after the repair), 38 `.luaurc` histories (the alias of a bundled require switched, removed, broken, shadowed by "
            "a closer .luaurc, alone or together with the entry, over several passes, in path and in luau require mode), "
            "16 histories removing a directory whose name is a string prefix of a sibling file and of a sibling directory "
            "(src/sub vs src/sub.lua and src/sub_extra/x.lua; src/sub/deep vs src/sub/deep.lua and src/sub/deep_x/y.lua - "
            "these siblings are in the project of every stream) followed by edits of the siblings, "
            "then seeded random histories up to length 12 "
            "(quick) or 40 (thorough); a history is non-trivial when some process after the first one reprocesses or "
            "deletes something; distinct by event sequence; for the oracle stream the unit is a process point and "
            "non-trivial means all hypotheses of the theorem hold there",
    "assumptions": ["xform reads the CURRENT file system at every pass (configuration file, .luaurc, required files): the "
                    "model passes the file system of the pass to xform and the correspondence compares the result with a "
                    "fresh run made in a new thread, so a cache that survives a pass shows up as a mismatch",
                    "xform_frame: a successful transformation result depends only on the source text and the registered "
                    "external files (checked on every real result of the run)",
                    "hash_faithful: configurations with equal hashes behave equally (the run checks the hash is "
                    "injective on the configurations it uses; xxh3 collisions are not considered)",
                    "the watcher delivers the events of file_watcher.rs::process_events for each change (reported); "
                    "the notify/debouncer layer itself is not modelled",
                    "carve-outs of the theorem: always_healthy (every source transforms at every process) and dirs_ok "
                    "(directory removals do not involve registered external dependencies) - outside them the model "
                    "reproduces the recorded findings F1-F4"],
}

PRUNE_PREAMBLE = """From DL Require Import Lib.Bytes Model.WorkerFs Model.Worker Model.WorkerCheck.
Open Scope N_scope.
Open Scope string_scope.
Definition check_case (k : prune_case) : bool := prune_check k.
Definition diag_case (k : prune_case) : string := "dirs differ".
"""

PREAMBLE = """From DL Require Import Lib.Bytes Model.WorkerFs Model.Worker Model.WorkerCheck.
Open Scope N_scope.
Open Scope string_scope.
Definition check_case (c : c10_case) : bool := false.
Definition diag_case (c : c10_case) : string :=
  ("model[" ++ c10_model c ++ "] scope[" ++ c10_scopes c ++ "]")%string.
"""

CONFIG_PATH = ".darklua.json"

KNOWN_CLASSES = {
    "F1": "stale-output-kept:WorkerTree::process-error-arm",
    "F2": "failed-require-not-registered:BuildModuleDefinitions::apply",
    "F3": "remove-directory-stale-node-index:WorkerTree::remove_source-directory-arm",
    "F4": "remove-directory-dependents-not-restarted:WorkerTree::remove_source-directory-arm",
    "F6": "no-pruning-without-snapshot:WorkerTree::clean_files",
    "F7": "luaurc-not-registered:PathRequireMode::initialize",
}
KNOWN_TEXT = {
    "F7": "a `.luaurc` that resolves an alias of a bundled require is read but not registered as an external "
          "dependency: editing, removing or creating it alone (reported through source_changed / remove_source) "
          "restarts nothing and the bundle keeps the old alias target",
    "F6": "when the output folder did not exist before the first run no snapshot is taken and clean_files prunes "
          "nothing: the directories of removed outputs stay behind empty (a fresh run does not create them)",
    "F1": "a source that stops transforming keeps the output of an earlier pass (a fresh run writes nothing for it)",
    "F2": "a bundle entry that failed on a missing or broken required file is not retried when that file is "
          "repaired or re-created (failed requires are not registered as dependencies)",
    "F3": "the worker panics on the next notification for a file that was an external dependency of an item "
          "removed with its directory (stale node index in external_dependencies)",
    "F4": "items that read a file inside a removed directory are not restarted (status stays ok, old output kept)",
}


PATH_NAMES = {}


def cpath(p):
    """paths are defined once in the preamble and used by name (keeps the case terms small)"""
    if p not in PATH_NAMES:
        PATH_NAMES[p] = "p%d" % len(PATH_NAMES)
    return PATH_NAMES[p]


def path_definitions():
    return "".join("Definition %s : path := [%s].\n" % (name, "; ".join(C.coq_string(x) for x in p.split("/")))
                   for p, name in PATH_NAMES.items())


def cblob(i):
    return "[%d]" % i


def low_level(step, first):
    """the model events for one harness event (must mirror World::apply in harness/crates/c10)"""
    ev = step["ev"]
    if ev == "P":
        return ["Snapshot", "Collect", "Process"] if first else ["Process"]
    kind, _, rest = ev.partition(":")
    if kind in ("E", "X"):
        p = rest.split(":")[0]
        return ["FsWrite %s %s" % (cpath(p), cblob(step["content"])), "SrcChanged %s" % cpath(p)]
    if kind == "A":
        p = rest.split(":")[0]
        return ["FsWrite %s %s" % (cpath(p), cblob(step["content"])), "Collect"]
    if kind == "S":
        p = rest.split(":")[0]
        return ["FsWrite %s %s" % (cpath(p), cblob(step["content"])), "AddSrc %s" % cpath(p)]
    if kind == "R":
        return ["FsRemove %s" % cpath(rest), "RemoveSrc %s" % cpath(rest)]
    if kind == "D":
        return ["FsRemoveDir %s" % cpath(rest), "RemoveSrc %s" % cpath(rest)]
    if kind == "C":
        return ["FsWrite %s %s" % (cpath(CONFIG_PATH), cblob(step["content"])), "SrcChanged %s" % cpath(CONFIG_PATH),
                "SetCfg %s" % rest]
    raise C.CheckBroken("unknown harness event " + ev)


STATUS = {"not_started": 0, "ok": 1, "err": 2}


def obs_term(step):
    if "panic" in step:
        return "ObsPanic"
    st = step["state"]
    items = []
    for it in st["items"]:
        if it["status"] not in STATUS:
            raise C.CheckBroken("work item in a state the model excludes: %r" % it)
        items.append("(%s, %s, %d, [%s])" % (cpath(it["source"]), cpath(it["output"]), STATUS[it["status"]],
                                            "; ".join(cpath(d) for d in it["deps"])))
    if st["edges"] != 0:
        raise C.CheckBroken("the work graph has edges; the model assumes none (require_content is overridden?)")
    ext = []
    for path, who in st["ext"]:
        ext.append("(%s, [%s])" % (cpath(path), "; ".join("None" if w == "<vacant>" else "Some " + cpath(w) for w in who)))
    rm = "; ".join(cpath(p) for p in st["remove_files"])
    out = "; ".join("(%s, %s)" % (cpath(p), cblob(b)) for p, b in sorted(step["out"].items()))
    return "ObsState [%s] [%s] [%s] [%s]" % ("; ".join(items), "; ".join(ext), rm, out)


def case_term(rec):
    """Coq term of type c10_case for one history record; also returns per-process bookkeeping"""
    cfg = 0
    hashes = {}
    table = []
    groups = []
    seen_entries = set()
    for k, step in enumerate(rec["steps"]):
        ev = step["ev"]
        if ev.startswith("C:"):
            cfg = int(ev[2:])
        groups.append("([%s], %s)" % ("; ".join(low_level(step, k == 0)), obs_term(step)))
        if ev == "P" and "fresh" in step:
            if step.get("state") and step["state"].get("hash"):
                hashes.setdefault(cfg, set()).add(int(step["state"]["hash"], 16))
            fresh = step["fresh"]
            ufs = sorted(step["user_files"].items())
            results = []
            if fresh["state"]:
                for it in fresh["state"]["items"]:
                    outb = fresh["out"].get(it["output"])
                    if it["status"] == "ok" and outb is not None:
                        r = "Some %s" % cblob(outb)
                    else:
                        r = "None"
                    results.append("(%s, (%s, [%s]))" % (cpath(it["source"]), r, "; ".join(cpath(d) for d in it["deps"])))
            entry = "(%d, [%s], [%s])" % (cfg, "; ".join("(%s, %s)" % (cpath(p), cblob(b)) for p, b in ufs),
                                          "; ".join(results))
            if entry not in seen_entries:
                seen_entries.add(entry)
                table.append(entry)
    hs = "; ".join("(%d, %d)" % (k, sorted(v)[0]) for k, v in sorted(hashes.items()))
    f0 = "; ".join("(%s, %s)" % (cpath(p), cblob(b)) for p, b in sorted(rec["initial"].items()))
    term = "(([%s], [%s], [%s], [%s]) : c10_case)" % (hs, "; ".join(table), f0, "; ".join(groups))
    return term, hashes


def read_harness(out):
    blobs = {}
    records = []
    for line in out.splitlines():
        if not line.startswith("{"):
            continue
        r = json.loads(line)
        if "blob" in r:
            blobs[r["blob"]] = bytes.fromhex(r["hex"])
        else:
            records.append(r)
    return blobs, records


def process_points(rec):
    """indices of the steps that are processes with an oracle result"""
    return [k for k, s in enumerate(rec["steps"]) if s["ev"] == "P" and "fresh" in s]


def expected_tree(rec, step):
    exp = {p: b for p, b in rec["initial"].items() if p.startswith("out/")}
    exp.update(step["fresh"]["out"])
    return exp


def touched_paths(ev):
    """the path an event reports to the worker (directory removals are the separate class F4)"""
    kind, _, rest = ev.partition(":")
    if kind in ("E", "A", "S"):
        return [rest.rsplit(":", 1)[0]]
    if kind in ("X", "R"):
        return [rest]
    return []


def stale_index_step(rec):
    """first step at which a directory is removed while an item below it has registered external
    dependencies (the input-side condition of the recorded class F3)"""
    for k in range(1, len(rec["steps"])):
        ev = rec["steps"][k]["ev"]
        prev = rec["steps"][k - 1].get("state")
        if ev.startswith("D:") and prev:
            d = ev[2:]
            if any(it["deps"] and (it["source"] + "/").startswith(d + "/") for it in prev["items"]):
                return k
    return None


def configuration_reset(prev, step):
    """did this process see a different configuration hash than the previous one (WorkerTree::reset)?"""
    before = (prev.get("state") or {}).get("hash")
    return before is not None and before != step["state"].get("hash")


def attempts(rec):
    """for every process step: source -> (step of its last attempt, files that attempt certainly
    read and inlined according to the harness's knowledge of the templates)"""
    if "_attempts" in rec:
        return rec["_attempts"]
    last = {}
    table = {}
    rec["_attempts"] = table
    prev = None
    for k, step in enumerate(rec["steps"]):
        if step["ev"] == "P" and step.get("state"):
            pending = None if prev is None or not prev.get("state") else {
                it["source"] for it in prev["state"]["items"] if it["status"] == "not_started"}
            if pending is not None and configuration_reset(prev, step):
                pending = None        # the configuration hash changed: reset, every item is attempted again
            for it in step["state"]["items"]:
                if it["status"] in ("ok", "err") and (pending is None or it["source"] in pending):
                    last[it["source"]] = (k, set(step.get("read_before_failure", {}).get(it["source"], [])))
            table[k] = dict(last)
        prev = step
    return table


def failed_run_dependencies(rec):
    """oracle: the dependencies recorded for an item whose attempt failed contain every file the
    attempt certainly read (so that a later change of one of them retries the item)"""
    problems = []
    prev = None
    for k, step in enumerate(rec["steps"]):
        if step["ev"] == "P" and step.get("state") and "read_before_failure" in step and prev and prev.get("state"):
            pending = {it["source"] for it in prev["state"]["items"] if it["status"] == "not_started"}
            if configuration_reset(prev, step):
                pending = {it["source"] for it in step["state"]["items"]}
            for it in step["state"]["items"]:
                want = set(step["read_before_failure"].get(it["source"], []))
                if it["status"] == "err" and it["source"] in pending and not want <= set(it["deps"]):
                    problems.append({"process_step": k, "source": it["source"], "recorded": it["deps"],
                                     "read_before_the_failure": sorted(want), "error": it["error"][:200]})
        prev = step
    return problems


def classify(rec, k, step, scope):
    """finding classes of the differences between the worker's tree and the fresh tree at step k,
    decided from the evidence in the two state dumps (never from the verdict alone)"""
    exp = expected_tree(rec, step)
    got = step["out"]
    classes = set()
    witems = {it["output"]: it for it in step["state"]["items"]}
    fitems = {it["output"]: it for it in (step["fresh"]["state"] or {"items": []})["items"]}
    had_dir_removal = any(s["ev"].startswith("D:") for s in rec["steps"][:k])
    for p in sorted(set(exp) | set(got)):
        if exp.get(p) == got.get(p):
            continue
        w, f = witems.get(p), fitems.get(p)
        reported = set()
        if w is not None:
            since, read = attempts(rec).get(k, {}).get(w["source"], (0, set()))
            for s_ in rec["steps"][since + 1:k]:
                reported.update(touched_paths(s_["ev"]))
        if w is None or f is None:
            classes.add("?")
        elif any(is_luaurc(q) for q in reported) and not (reported & (read | {w["source"]})):
            # a .luaurc changed since the item was last attempted and nothing restarted the item
            classes.add("F7")
        elif w["status"] == "err" and f["status"] == "err" and p in got and p not in exp:
            classes.add("F1")      # the failing item kept the output of an earlier pass
        elif w["status"] == "err" and f["status"] == "ok":
            # failed earlier, would succeed now, was not retried.  This is the recorded class F2 only
            # if nothing the failed attempt had read (nor its own source) was reported as changed
            # since: otherwise the item had to be restarted and its staleness is a different defect
            since, read = attempts(rec).get(k, {}).get(w["source"], (0, set()))
            reported = set()
            for s_ in rec["steps"][since + 1:k]:
                reported.update(touched_paths(s_["ev"]))
            if reported & (read | {w["source"]}):
                classes.add("?")
            else:
                classes.add("F2")
        elif w["status"] == "ok" and had_dir_removal and "d" in scope:
            classes.add("F4")      # a dependency went away with its directory, item not restarted
        else:
            classes.add("?")
    return classes


def is_luaurc(path):
    return path == ".luaurc" or path.endswith("/.luaurc")


def luaurc_view(ufs):
    return tuple(sorted((p, b) for p, b in ufs.items() if is_luaurc(p)))


def frame_conflicts(entries):
    """entries: (deps, out, ufs) of successful or failed transformations of ONE (configuration, source,
    source text).  The hypothesis xform_frame: a successful result stays the same on every file system
    that agrees on its registered dependencies.  Returns (genuine, explained_by_luaurc) conflict lists."""
    genuine, luaurc = [], []
    for deps1, out1, ufs1 in entries:
        if out1 is None:
            continue
        for deps2, out2, ufs2 in entries:
            if (deps2, out2) == (deps1, out1):
                continue
            if all(ufs2.get(d) == ufs1.get(d) for d in deps1):
                (luaurc if luaurc_view(ufs1) != luaurc_view(ufs2) else genuine).append(((deps1, out1), (deps2, out2)))
    return genuine, luaurc


def fresh_entries(rec, upto=None):
    """(configuration, source, source blob) -> [(deps, out or None, ufs)] from the fresh runs of a history"""
    table = {}
    cfg = 0
    for k, step in enumerate(rec["steps"]):
        if upto is not None and k > upto:
            break
        if step["ev"].startswith("C:"):
            cfg = int(step["ev"][2:])
        if step["ev"] != "P" or "fresh" not in step or not step["fresh"]["state"]:
            continue
        ufs = step["user_files"]
        for it in step["fresh"]["state"]["items"]:
            out = step["fresh"]["out"].get(it["output"]) if it["status"] == "ok" else None
            table.setdefault((cfg, it["source"], ufs.get(it["source"])), []).append((tuple(it["deps"]), out, ufs))
    return table


def history_frame_ok(rec, upto):
    """does the real transformation satisfy xform_frame on the results seen in this history (up to a step)"""
    if "_frame_bad_from" not in rec:
        bad_from = None
        for k in process_points(rec):
            if any(any(frame_conflicts(entries)) for entries in fresh_entries(rec, k).values()):
                bad_from = k
                break
        rec["_frame_bad_from"] = bad_from
    return rec["_frame_bad_from"] is None or upto < rec["_frame_bad_from"]


def check_xform_hypotheses(records):
    """the section hypotheses about xform, tested on every real transformation result seen:
    success-only frame, registered dependencies exist and lie outside the output folder"""
    n = 0
    problems = []
    known_luaurc = 0
    merged = {}
    for rec in records:
        for key, entries in fresh_entries(rec).items():
            for deps, out, ufs in entries:
                if out is None:
                    continue
                n += 1
                for d in deps:
                    if ufs.get(d) is None:
                        problems.append(("deps_exist", rec["h"], key[1], d))
                    if d.startswith("out/"):
                        problems.append(("deps_outside", rec["h"], key[1], d))
            # blob numbers are per harness run: never compare across streams
            bucket = merged.setdefault((rec["stream"],) + key, {})
            for deps, out, ufs in entries:
                relevant = tuple(sorted((p, b) for p, b in ufs.items()
                                        if not p.startswith("src/") or p == "src/sub/b.lua" or is_luaurc(p)))
                bucket.setdefault((deps, out, relevant), (deps, out, ufs))
    for key, bucket in merged.items():
        genuine, luaurc = frame_conflicts(list(bucket.values()))
        known_luaurc += len(luaurc)
        for conflict in genuine[:1]:
            problems.append(("xform_frame", key, [str(c) for c in conflict]))
    return n, len(merged), problems, known_luaurc


def run(ctx):
    C.build_harness("dl-c10")
    # the collapse of the work loop rests on this: nobody overrides Rule::require_content
    rc, grep = C.sh(["grep", "-rn", "--include=*.rs", "fn require_content", os.path.join(C.REPO, "src")])
    overrides = [l for l in grep.splitlines() if "src/rules/mod.rs" not in l]
    ctx.obligation("no rule overrides Rule::require_content (model collapses InProgress/edges)", not overrides,
                   "; ".join(overrides[:3]))
    proofs_ok = C.proof_gate(ctx, extra_targets=["Model/WorkerCheck.vo"])

    quick = ctx.tier == "quick"
    streams = [
        ("exhaustive, reduced alphabet", ["enum", "--len", "3" if quick else "4"]),
        ("exhaustive, full alphabet", ["enum", "--len", "2", "--alphabet", "full"]),
        ("break / repair / touch every bundled file", ["breakfix"]),
        (".luaurc aliases changing between passes, path and luau require mode", ["luaurc"]),
        ("directory removal next to siblings with the same name prefix", ["siblings"]),
        ("random", ["random", "--seed", str(ctx.seed), "--n", "120" if quick else "1500",
                    "--len", "12" if quick else "40"]),
    ]
    records = []
    # the streams are independent harness processes: run them side by side
    with ThreadPoolExecutor(max_workers=len(streams)) as pool:
        outputs = list(pool.map(lambda item: C.harness("dl-c10", item[1], timeout=1500), streams))
    for (name, args), out in zip(streams, outputs):
        _, recs = read_harness(out)
        for r in recs:
            r["stream"] = name
        records.extend(recs)
    seen = set()
    uniq = []
    for r in records:
        if r["h"] not in seen:
            seen.add(r["h"])
            uniq.append(r)
    records = uniq

    # ---- model = code, and the scope of the theorem, evaluated inside Coq
    cases = []
    all_hashes = {}
    for cid, rec in enumerate(records):
        if rec["verdict"] == "hang":
            continue
        term, hashes = case_term(rec)
        for k, v in hashes.items():
            all_hashes.setdefault(k, set()).update(v)
        cases.append((cid, term))
    diags = dict(C.run_coq_cases(ctx.prop, PREAMBLE + path_definitions(), cases, chunk=min(60, max(20, len(cases) // (3 * C.NPROC) + 1))))
    if len(diags) != len(cases):
        raise C.CheckBroken("expected a diagnosis for every history (%d), got %d" % (len(cases), len(diags)))

    # the model's hash is the real one: equal ids -> equal hash, distinct ids -> distinct hashes
    hash_problems = [k for k, v in all_hashes.items() if len(v) != 1]
    flat = [sorted(v)[0] for v in all_hashes.values()]
    if hash_problems or len(set(flat)) != len(flat):
        ctx.violation("configuration hash is not a function of / not injective on the configurations used "
                      "(a configuration change would be invisible to the worker)",
                      {"hashes": {str(k): ["%016x" % x for x in sorted(v)] for k, v in all_hashes.items()}},
                      key="config-hash")

    model_bad = []
    tolerated_after_stale_index = 0
    nontrivial = {}
    n_points = 0
    n_in_scope = 0
    class_counts = {}
    n_failed_dep_checks = {"checked": 0, "bad": 0}
    samples = []
    for cid, rec in enumerate(records):
        stream = rec["stream"]
        replay_cmd = "harness/target/release/dl-c10 run '%s'" % rec["h"]
        if rec["verdict"] == "hang":
            ctx.violation("the worker did not finish a history within the time limit (loop)",
                          {"history": rec["h"], "replay": replay_cmd}, key="hang:" + rec["h"])
            continue
        m = re.match(r"model\[(.*)\] scope\[(.*)=(\w*)\]$", diags[cid], flags=re.S)
        if not m:
            raise C.CheckBroken("cannot parse diagnosis %r" % diags[cid])
        model_diag, scopes, full_scope = m.group(1), m.group(2).split(), m.group(3)
        points = process_points(rec)
        if rec["steps"][-1]["ev"] == "P" and "panic" not in rec["steps"][-1] and scopes and scopes[-1] != full_scope:
            raise C.CheckBroken("the two evaluations of the theorem's hypotheses disagree on %r: %s vs %s"
                                % (rec["h"], scopes[-1], full_scope))
        if model_diag:
            # once remove_source on a directory has left a stale node index behind (recorded class F3),
            # which later item re-uses that index depends on the hash-map order of the next directory
            # removal: the occupant of the stale entry, and a spurious restart through it, are not
            # determined by the history.  Files and queued removals still are.
            g = re.match(r"group (\d+): items=\w+ ext=\w+ remove_files=ok out=ok $", model_diag)
            stale_from = stale_index_step(rec)
            if g and stale_from is not None and int(g.group(1)) > stale_from:
                tolerated_after_stale_index += 1
            else:
                model_bad.append((rec["h"], model_diag))
        # non-trivial: some later process reprocessed or removed something
        trivial = True
        for a, b in zip(rec["steps"], rec["steps"][1:]):
            if b["ev"] == "P" and a.get("state") and (
                    any(it["status"] == "not_started" for it in a["state"]["items"]) or a["state"]["remove_files"]):
                trivial = False
        if not trivial:
            nontrivial[stream] = nontrivial.get(stream, 0) + 1
        if len(samples) < 3 and not trivial and rec["verdict"] == "ok" and len(rec["steps"]) > 3:
            samples.append({"history": rec["h"], "hypotheses_at_each_process": scopes})
        # ---- oracle (a): the fresh run
        for j, k in enumerate(points):
            step = rec["steps"][k]
            n_points += 1
            scope = scopes[j] if j < len(scopes) else "?"
            # X: the hypothesis xform_frame holds on the real results of this history so far
            scope += "X" if history_frame_ok(rec, k) else "x"
            in_scope = scope == "RPDHX"
            n_in_scope += in_scope
            if step["equal_fresh"]:
                continue
            classes = classify(rec, k, step, scope)
            replay = {"history": rec["h"], "process_index": j, "hypotheses": scope,
                      "replay": replay_cmd, "classes": sorted(classes),
                      "differences": [p for p in sorted(set(expected_tree(rec, step)) | set(step["out"]))
                                      if expected_tree(rec, step).get(p) != step["out"].get(p)]}
            if in_scope or "?" in classes:
                ctx.violation("the output tree after a process differs from a fresh run over the same inputs "
                              "(%s the hypotheses of the theorem)" % ("inside" if in_scope else "outside"),
                              replay, key="differs:" + rec["h"])
            else:
                for c in classes:
                    class_counts[c] = class_counts.get(c, 0) + 1
                    ctx.violation(KNOWN_TEXT[c], replay, key=KNOWN_CLASSES[c])
        for prob in failed_run_dependencies(rec)[:1]:
            n_failed_dep_checks["bad"] += 1
            ctx.violation("the dependencies recorded after a failed run miss files the attempt had read: a later "
                          "change of such a file does not retry the item",
                          dict(prob, history=rec["h"], replay=replay_cmd), key="failed-run-deps:" + rec["h"])
        n_failed_dep_checks["checked"] += sum(1 for s_ in rec["steps"] if "read_before_failure" in s_)
        if rec["verdict"] == "panic":
            msg = rec["detail"]["message"]
            replay = {"history": rec["h"], "message": msg, "at": rec["detail"]["event"],
                      "hypotheses": full_scope, "replay": replay_cmd}
            stale_index = "fixedbitset" in msg or "node index should exist" in msg
            if stale_index and "D" not in full_scope and "d" in full_scope and not model_diag:
                class_counts["F3"] = class_counts.get("F3", 0) + 1
                ctx.violation(KNOWN_TEXT["F3"], replay, key=KNOWN_CLASSES["F3"])
            else:
                ctx.violation("the worker panics: " + msg, replay, key="panic:" + rec["h"])

    # ---- real directory: the same oracle, and the directories (ancestor pruning of clean_files)
    root = tempfile.mkdtemp(prefix="dl-c10-", dir="/tmp")
    try:
        out = C.harness("dl-c10", ["disk", "--root", root], timeout=600)
    finally:
        shutil.rmtree(root, ignore_errors=True)
    _, disk_records = read_harness(out)
    prune_cases = []
    n_disk_points = 0
    for rec in disk_records:
        replay = {"history": rec["h"], "preexisting_output": rec["preexisting_output"],
                  "replay": "harness/target/release/dl-c10 disk --root /tmp/<dir>"}
        if rec["verdict"] != "ok":
            ctx.violation("on a real directory the output files differ from a fresh run (%s)" % rec["verdict"],
                          dict(replay, detail=rec["detail"]), key="disk-differs:" + rec["h"])
            continue
        initial_dirs = {"out", "out/keep", "out/emptykeep"} if rec["preexisting_output"] else set()
        for prev, step in zip(rec["steps"], rec["steps"][1:]):
            if step["ev"] != "P" or "fresh" not in step:
                continue
            n_disk_points += 1
            got = set(step["dirs"])
            want = set(step["fresh"].get("dirs", [])) | initial_dirs
            if got != want:
                extra, missing = sorted(got - want), sorted(want - got)
                r = dict(replay, extra_directories=extra, missing_directories=missing)
                if not rec["preexisting_output"] and not missing and step["state"]["snapshot"] is None:
                    ctx.violation(KNOWN_TEXT["F6"], r, key=KNOWN_CLASSES["F6"])
                else:
                    ctx.violation("the directories below the output folder differ from a fresh run", r,
                                  key="disk-dirs:" + rec["h"])
            snapshot = prev.get("state", {}).get("snapshot") if prev.get("state") else None
            if snapshot is not None and prev["state"]["remove_files"]:
                removed = prev["state"]["remove_files"]
                before = set(prev["out"])
                written = [p for p in step["out"] if p not in before or p in removed]
                prune_cases.append((len(prune_cases), "(mkPrune [%s] [%s] [%s] [%s] [%s] [%s])" % tuple(
                    "; ".join(cpath(p) for p in l) for l in (
                        snapshot, sorted(before), prev["dirs"], removed, written, step["dirs"]))))
    bad_prune = C.run_coq_cases(ctx.prop, PRUNE_PREAMBLE + path_definitions(), prune_cases, tag="prune") if prune_cases else []
    ctx.stream("real directory: files and directories after every process vs a fresh run; prune_ancestors model vs disk",
               n_disk_points, len(prune_cases), [], prune_model_mismatches=len(bad_prune))
    if bad_prune and not ctx.violations:
        ctx.violation("correspondence broken: Model/Worker.v prune_ancestors and clean_files on disk disagree",
                      {"stream": "prune model-vs-code", "case": prune_cases[bad_prune[0][0]][1][:1500]}, found_input=False)

    n_x, n_groups, x_problems, x_luaurc = check_xform_hypotheses(records)
    if x_luaurc:
        ctx.violation(KNOWN_TEXT["F7"], {"conflicting_result_pairs": x_luaurc,
                                         "replay": "harness/target/release/dl-c10 run 'E:.luaurc:2 P'"},
                      key=KNOWN_CLASSES["F7"])
    for prob in x_problems[:3]:
        ctx.violation("a hypothesis about the transformation (%s) fails on real results" % prob[0],
                      {"what": [str(x) for x in prob]}, key="xform-hypothesis:" + prob[0])

    by_stream = {}
    for rec in records:
        by_stream[rec["stream"]] = by_stream.get(rec["stream"], 0) + 1
    for name, count in by_stream.items():
        ctx.stream("WorkerTree state and output tree after every event: model vs Rust (%s)" % name, count,
                   nontrivial.get(name, 0), samples if name.startswith("exhaustive, reduced") else [],
                   mismatches=len(model_bad), index_reuse_after_stale_index_not_compared=tolerated_after_stale_index)
    ctx.stream("output tree after every process vs a fresh darklua_core::process (oracle)", n_points, n_in_scope, [],
               process_points_inside_the_hypotheses=n_in_scope, known_class_hits=class_counts)
    ctx.stream("hypotheses about xform on real results (frame, deps exist, deps outside output)", n_x, n_groups, [],
               problems=len(x_problems), frame_conflicts_explained_by_luaurc=x_luaurc)
    ctx.stream("dependencies recorded after a failed bundle contain the files read before the failure",
               n_failed_dep_checks["checked"], n_failed_dep_checks["checked"], [], problems=n_failed_dep_checks["bad"])

    if model_bad and not ctx.violations:
        h, d = model_bad[0]
        ctx.violation("correspondence broken: the real WorkerTree and Model/Worker.v disagree "
                      "(the theorems no longer apply to the code); no output tree differs from a fresh run "
                      "outside the recorded classes",
                      {"stream": "state model-vs-code", "history": h, "diag": d, "mismatches": len(model_bad),
                       "replay": "harness/target/release/dl-c10 run '%s'" % h}, found_input=False)
    if not proofs_ok and not ctx.violations:
        failed = [n for n, ok, _ in ctx.obligations if not ok]
        ctx.violation("proof obligation no longer checks: " + "; ".join(failed), {"obligations": failed},
                      found_input=False)


def replay(ctx, path):
    r = json.load(open(path))
    print(json.dumps(r, indent=1))
    h = r.get("replay", {}).get("history")
    if h is not None:
        C.build_harness("dl-c10")
        out = C.harness("dl-c10", ["run", h])
        _, recs = read_harness(out)
        for rec in recs:
            print("verdict:", rec["verdict"], json.dumps(rec["detail"])[:2000])
    return 0
