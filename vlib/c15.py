"""C15 - requires resolve as documented and conversions keep the target."""
import json
import os

from . import common as C

META = {
    "title": "Requires resolve as documented and conversions keep the target",
    "level": "proof",
    "design_ref": "DESIGN.md section 6 / C15",
    "technique": "Coq theorems on a Gallina model of std::path components, darklua's normalize, the candidate iterator, "
                 "both locators and both generate_require; model tied to the Rust code by exhaustive differential runs "
                 "over every subset of the candidate files, evaluated inside Coq (vm_compute); documented resolution and "
                 "target preservation re-checked on the Rust results by an oracle that does not use the model",
    "level_text": "Machine-checked theorems (Coq 8.16 kernel, no axioms): the candidate list equals the documented list "
                  "(alone when the path already ends in .lua/.luau); both locators return exactly the first existing "
                  "candidate, from a head that is the requiring file's directory (path mode), its parent for module-folder "
                  "files / @self (luau mode), the source/alias location, or the absolute path; the written require argument "
                  "is read back unchanged; convert_require towards the path or the luau mode keeps the target for every "
                  "requiring file and target below the working directory when no alias is configured, provided the target "
                  "is the first existing candidate of its stripped form (for all directory depths, names and file systems), "
                  "for a target alias whose value is exactly the resolved file (also a module-folder file) whenever that file "
                  "exists, and on a bounded universe with directory- and file-valued aliases and absolute targets by "
                  "exhaustive evaluation. The unrestricted "
                  "statement is refuted in the model and on the code (seven recorded finding classes). Every run compares "
                  "the model with the compiled locators / generate_require on all subsets of the candidate files x "
                  "requiring files x require strings x configurations, and re-checks documented resolution and target "
                  "preservation on the Rust results without using the model.",
    "level_note": "Trusted: Coq kernel + vm_compute; the transcription of std::path (unix) and pathdiff 0.2.3 into "
                  "Model/Paths.v (tied by the correspondence only); the python oracle of the documented behaviour; harness, "
                  "hooks and hex transport. Aliases, .luaurc and absolute paths are inside the resolution theorems and the "
                  "correspondence, but outside the unbounded conversion theorem (bounded theorem only). Not covered: roblox "
                  "mode, windows prefixes, non-UTF-8 names, Source::FileSystem, the HashMap-order dependent choice between "
                  "two aliases of the same directory.",
    "trusted_base": ["Coq 8.16.1 kernel, vm_compute", "Model/Paths.v, Model/Require.v (transcription of std::path, pathdiff 0.2.3, darklua)",
                     "harness/crates/c15 + src/verif_hooks.rs::c15 + hex transport", "vlib/c15.py documented-order oracle"],
    "allowed_axioms": [],
    "rule": "fixed layouts of <= 8 optional files (all 2^n subsets each) x requiring files (ordinary, module-folder file, "
            "top-level, nested, outside the working directory, absolute) x require strings (relative, parent-relative, "
            "with/without extension, redundant ./.. segments, alias-prefixed, @self, absolute) x require-mode "
            "configurations (module_folder_name init/index/init.luau, sources/aliases maps, project locations, .luaurc); "
            "one evaluation = one (configuration, layout subset, requiring file, string); non-trivial = the resolution "
            "succeeds; distinct by the whole tuple",
    "assumptions": ["unix path semantics (std::path on the build host)",
                    "the documented order is docs/path-require-mode (candidate list) with the iterator's special case "
                    "for paths that already end in .lua/.luau",
                    "in-memory Resources (normalize_path keyed) stand for the file system"],
}

PREAMBLE_HEAD = """From DL Require Import Lib.Bytes Model.Paths Model.Require.
Open Scope N_scope.
Open Scope string_scope.
Definition P (s : string) : path := parse_path (unhex s).
Definition B (s : string) : bytes := unhex s.
Fixpoint select {A} (l : list A) (mask : N) : list A :=
  match l with
  | [] => []
  | x :: r => if N.odd mask then x :: select r (N.div2 mask) else select r (N.div2 mask)
  end.
Definition is_err (s : string) : bool := match s with String "!" _ => true | String "~" _ => true | _ => false end.
Definition err_code (e : rerr) : string :=
  match e with ENotFound => "!nf" | EUnknownSource => "!unk" | EEmpty => "!empty" end.
Definition res_str (r : res) : string :=
  match r with Found p => tohex (write_require_path p) | Failed x => err_code x end.
Definition opt_res_str (r : option res) : string := match r with Some r => res_str r | None => "~" end.
Definition gen_str (g : option bytes) : string := match g with Some g => tohex g | None => "~" end.
Fixpoint paths_eqb (a b : list path) : bool :=
  match a, b with
  | [], [] => true
  | x :: a', y :: b' => path_eqb x y && paths_eqb a' b'
  | _, _ => false
  end.
Definition strs (l : list path) : string := String.concat " " (map (fun p => tohex (write_require_path p)) l).
"""

PREAMBLE_TAIL = """
(* everything that does not depend on the subset is evaluated once per case (vm_compute is call-by-value) *)
Definition lay_parts (lay : N) : list path * list path * rc_files :=
  let '(opt, base, rcs) := layout_of lay in
  (mk_fs opt, mk_fs (base ++ map (fun e => join (fst e) [Norm luaurc_name]) rcs)%list, rcs).
Definition fs_at (nopt nbase : list path) (mask : N) : fs := (select nopt mask ++ nbase)%list.

Definition expect := (path + string)%type.
Definition E (s : string) : expect := if is_err s then inr s else inl (P s).
Definition res_ok (r : res) (e : expect) : bool :=
  match r, e with
  | Found p, inl q => path_eqb p q
  | Failed x, inr s => String.eqb (err_code x) s
  | _, _ => false
  end.
Definition opt_res_ok (r : option res) (e : expect) : bool :=
  match r with Some r => res_ok r e | None => match e with inr s => String.eqb s "~" | _ => false end end.
Definition gen_ok (g : option bytes) (e : bytes + string) : bool :=
  match g, e with
  | Some g, inl x => bytes_eqb g x
  | None, inr s => String.eqb s "~"
  | _, _ => false
  end.
Definition EG (s : string) : bytes + string := if is_err s then inr s else inl (B s).

Inductive tcase :=
| TR (cfg lay : N) (src lit : string) (table : list string) (codes : list N)
| TV (cur tgt lay : N) (src lit : string) (table : list (string * string * string)) (codes : list N)
| TI (p mfn : string) (expected : list string)
| TN (p e_false e_true : string)
| TG (req src rel written : string).

Fixpoint first_bad {A} (f : N -> A -> bool) (mask : N) (l : list A) : option (N * A) :=
  match l with
  | [] => None
  | x :: r => if f mask x then first_bad f (N.succ mask) r else Some (mask, x)
  end.

Definition r_bad cfg lay src lit (table : list string) codes : option (N * N) :=
  let c := cfg_of cfg in
  let '(nopt, nbase, rcs) := lay_parts lay in
  let s := P src in
  let l := B lit in
  let t := map E table in
  first_bad (fun mask code => res_ok (find_require c rcs (fs_at nopt nbase mask) s l) (nth (N.to_nat code) t (inr "?")))
            0 codes.
Definition v_bad cur tgt lay src lit (table : list (string * string * string)) codes : option (N * N) :=
  let c1 := cfg_of cur in
  let c2 := cfg_of tgt in
  let '(nopt, nbase, rcs) := lay_parts lay in
  let s := P src in
  let l := B lit in
  let t := map (fun x => let '(a, b, c) := x in (E a, EG b, E c)) table in
  first_bad (fun mask code =>
               let cv := convert c1 c2 rcs (fs_at nopt nbase mask) s l in
               let '(ef, eg, er) := nth (N.to_nat code) t (inr "?", inr "?", inr "?") in
               res_ok (cv_found cv) ef && gen_ok (cv_generated cv) eg && opt_res_ok (cv_refound cv) er)
            0 codes.
Definition rel_ok (req src rel : string) : bool :=
  match get_relative_path (P req) (P src) true with
  | Some p => negb (is_err rel) && path_eqb p (P rel)
  | None => String.eqb rel "!none"
  end.

Definition check_case (c : tcase) : bool :=
  match c with
  | TR cfg lay src lit table codes => match r_bad cfg lay src lit table codes with None => true | Some _ => false end
  | TV cur tgt lay src lit table codes => match v_bad cur tgt lay src lit table codes with None => true | Some _ => false end
  | TI p mfn expected => paths_eqb (candidates (P p) (B mfn)) (map P expected)
  | TN p e_false e_true =>
    path_eqb (normalize false (P p)) (P e_false) && path_eqb (normalize true (P p)) (P e_true)
  | TG req src rel written => rel_ok req src rel && bytes_eqb (write_require_path (P req)) (B written)
  end.

Definition n2s (n : N) : string := to_string (dec_digits n).
Definition nth_str (t : list string) (k : N) : string := nth (N.to_nat k) t "?".
Definition diag_case (c : tcase) : string :=
  match c with
  | TR cfg lay src lit table codes =>
    match r_bad cfg lay src lit table codes with
    | None => "ok"
    | Some (mask, code) =>
      let '(nopt, nbase, rcs) := lay_parts lay in
      "R mask=" ++ n2s mask ++ " model=" ++
      res_str (find_require (cfg_of cfg) rcs (fs_at nopt nbase mask) (P src) (B lit)) ++ " rust=" ++ nth_str table code
    end
  | TV cur tgt lay src lit table codes =>
    match v_bad cur tgt lay src lit table codes with
    | None => "ok"
    | Some (mask, code) =>
      let '(nopt, nbase, rcs) := lay_parts lay in
      let cv := convert (cfg_of cur) (cfg_of tgt) rcs (fs_at nopt nbase mask) (P src) (B lit) in
      let '(ef, eg, er) := nth (N.to_nat code) table ("?", "?", "?") in
      "V mask=" ++ n2s mask ++ " model=" ++ res_str (cv_found cv) ++ ";" ++ gen_str (cv_generated cv) ++ ";" ++
      opt_res_str (cv_refound cv) ++ " rust=" ++ ef ++ ";" ++ eg ++ ";" ++ er
    end
  | TI p mfn expected => "I model=" ++ strs (candidates (P p) (B mfn))
  | TN p e_false e_true =>
    "N model=" ++ tohex (write_require_path (normalize false (P p))) ++ " " ++ tohex (write_require_path (normalize true (P p)))
  | TG req src rel written =>
    "G model=" ++ match get_relative_path (P req) (P src) true with Some p => tohex (write_require_path p) | None => "!none" end
    ++ " " ++ tohex (write_require_path (P req))
  end.
"""


def unhex(x):
    return "" if x == "-" else bytes.fromhex(x).decode()


def hx(x):
    """transport token -> hex string for Coq ('-' is the empty string)"""
    return "" if x == "-" else x


def q(s):
    return C.coq_string(s)


def coq_list(items):
    return "[" + "; ".join(items) + "]"


# ------------------------------------------------------------------------------------------
# a small, independent implementation of the *documented* behaviour (strings, not the model)


def split_components(p):
    """unix components of a path string: leading '/', then names; '.' kept only when leading"""
    root = p.startswith("/")
    parts = [c for c in p.split("/") if c != ""]
    out = []
    for i, c in enumerate(parts):
        if c == "." and not (i == 0 and not root):
            continue
        out.append(c)
    return root, out


def lexical(p):
    """lexical normal form used to identify files: returns None when `..` climbs above the root"""
    if p == "":
        return ""
    root, parts = split_components(p)
    out = []
    for c in parts:
        if c == ".":
            continue
        if c == "..":
            if out and out[-1] != "..":
                out.pop()
            elif root:
                return None
            else:
                out.append("..")
        else:
            out.append(c)
    if root:
        return "/" + "/".join(out)
    return "/".join(out) if out else "."


def dirname(p):
    root, parts = split_components(p)
    parts = [c for c in parts if c != "."]
    if not parts:
        return None
    parts = parts[:-1]
    if root:
        return "/" + "/".join(parts)
    return "/".join(parts)


def pjoin(a, b):
    if b.startswith("/"):
        return b
    if a == "":
        return b
    if a.endswith("/"):
        return a + b
    return a + "/" + b


def parent_dir(d):
    """the directory above directory d ('' is the working directory)"""
    if d == "/":
        return None
    if d in ("", "."):
        return ".."
    return pjoin(d, "..")


LUA_EXTS = (".lua", ".luau")


def documented_candidates(target, mfn):
    """docs/path-require-mode 'Path Resolution' list for a lexically normalised target"""
    name = "" if target in (".", "..", "/") or target.endswith("/..") else target.rsplit("/", 1)[-1]
    if name and any(name.endswith(e) and len(name) > len(e) for e in LUA_EXTS):
        return [target]
    out = []
    if name:
        out += [target, target + ".luau", target + ".lua"]
    folder = pjoin(target, mfn)
    out.append(folder)
    stem = mfn.rsplit("/", 1)[-1]
    if "." not in stem.lstrip("."):
        out += [folder + ".luau", folder + ".lua"]
    return out


class Unspecified(Exception):
    pass


def documented_target(cfg, layout, src, lit):
    """('path', p) lexically normalised path the require designates, or ('err', kind). Raises Unspecified
    where the documentation does not decide."""
    if lit == "":
        return ("err", "empty")
    root, parts = split_components(lit)
    src_dir = dirname(src)
    if src_dir is None:
        raise Unspecified()
    if not root and parts and parts[0] in (".", ".."):
        base = src_dir
        if cfg["luau"]:
            name = src.rsplit("/", 1)[-1]
            if name in ("init.lua", "init.luau"):
                base = parent_dir(src_dir)
                if base is None:
                    raise Unspecified()
            elif name == "init" or (name.rsplit(".", 1)[0] == "init"):
                # `init` without extension, `init.txt`: darklua counts them (file name or file stem equal to the
                # module folder name), the documentation only speaks of init.lua / init.luau: not decided here.
                # `init.spec.luau`, `init.server.luau`, ... (stem `init.spec`) are ordinary files.
                raise Unspecified()
        full = pjoin(base, lit)
    elif root:
        full = lit
    else:
        first, rest = parts[0], "/".join(parts[1:])
        if cfg["luau"] and first == "@self":
            full = pjoin(src_dir, rest)
        else:
            loc = None
            # documented precedence: the nearest .luaurc first, then the configured sources/aliases
            if cfg["rc"]:
                d = src_dir
                while True:
                    hit = [al for (rd, al) in layout["rc"] if lexical(rd or ".") == lexical(d or ".")]
                    if hit:
                        if first.startswith("@") and first[1:] in hit[0]:
                            loc = pjoin(d, hit[0][first[1:]])
                        break
                    if d in ("", "/", "."):
                        break
                    d = dirname(d)
            if loc is None and first in cfg["sources"]:
                project = cfg["project"] if cfg["project"] is not None else src_dir
                loc = pjoin(project, cfg["sources"][first])
            if loc is None:
                if cfg["luau"] and not first.startswith("@"):
                    # documented as an alias lookup, implemented as a plain working-directory path: not decided here
                    raise Unspecified()
                return ("err", "unk")
            full = pjoin(loc, rest) if rest else loc
    norm = lexical(full)
    if norm is None:
        raise Unspecified()
    return ("path", norm)


def first_existing(cands, present):
    for c in cands:
        n = lexical(c)
        if n is not None and n in present:
            return n
    return None


def strip_documented(f, mfn):
    """what generate_require does to the target before writing it (module folder file -> folder,
    lua/luau extension dropped), on a lexically normalised path"""
    d, _, name = f.rpartition("/")
    stem = name.rsplit(".", 1)[0] if "." in name.lstrip(".") else name
    if name == mfn or stem == mfn:
        return d if d else ("/" if f.startswith("/") else ".")
    for e in LUA_EXTS:
        if name.endswith(e) and len(name) > len(e):
            return f[: -len(e)]
    return f


def starts_relative(p):
    return p in (".", "..") or p.startswith("./") or p.startswith("../")


# ------------------------------------------------------------------------------------------


def parse_pairs(tok):
    if tok == "-":
        return {}
    out = {}
    for kv in tok.split(","):
        k, v = kv.split("=")
        out[unhex(k)] = unhex(v)
    return out


KNOWN_CLASSES = {
    # conversion
    "ambiguous-after-strip@generate_require":
        "convert_require drops the .lua/.luau extension (or the module folder file name) of the target, and the shorter "
        "require has an earlier existing candidate",
    "cwd-relative-result-reused-as-file-relative@generate_require":
        "a resolved path that starts with `.` or `..` (relative to the working directory) is written back unchanged as if "
        "it were relative to the requiring file",
    "luaurc-shadows-alias@luau_require_mode.rs:get_source":
        "generate_require picks a configured alias but resolution gives the .luaurc alias of the same name precedence",
    "luau-alias-without-at@luau_path_locator.rs:find_require_path":
        "the luau mode ignores configured aliases whose name does not start with `@` (documented as allowed)",
    # resolution
    "alias-collapsed-by-normalize@match_require.rs:match_path_require_call":
        "the require string is normalised before the alias/@self lookup, so `@alias/../x` loses its alias component",
    "path-luaurc-precedence@path_require_mode.rs:get_source":
        "the path mode looks in `sources` before the .luaurc aliases (documented the other way round)",
    "luau-toplevel-init-parent@luau_path_locator.rs:find_require_path":
        "a module-folder file directly in the working directory resolves `./x` in the working directory instead of its parent",
}


def run(ctx):
    C.build_harness("dl-c15")
    proofs_ok = C.proof_gate(ctx)

    out = C.harness("dl-c15", ["cases", "--tier", ctx.tier], timeout=3000)
    cfgs, cfg_ids, layouts, lay_ids = {}, {}, {}, {}
    cases = []          # (id, coq term, info)
    resolution, conversion, e2e, bundles, multi, warm = [], [], [], [], [], []
    for line in out.splitlines():
        p = line.split(" ")
        kind = p[0]
        if kind == "C":
            cfg_ids[p[1]] = len(cfg_ids)
            cfgs[p[1]] = {"id": p[1], "luau": p[2] == "luau", "mfn": unhex(p[3]), "mfn_hex": hx(p[3]),
                          "project": None if p[4] == "~" else unhex(p[4]), "sources": parse_pairs(p[5]),
                          "rc": p[6] == "rc"}
        elif kind == "L":
            n = int(p[2])
            files = [unhex(x) for x in p[3:]]
            lay_ids[p[1]] = len(lay_ids)
            layouts[p[1]] = {"id": p[1], "optional": files[:n], "base": files[n:], "rc": []}
        elif kind == "K":
            layouts[p[1]]["rc"].append((unhex(p[2]), parse_pairs(p[3])))
        elif kind == "R":
            resolution.append(p)
        elif kind == "V":
            conversion.append(p)
        elif kind == "E":
            e2e.append(p)
        elif kind == "D":
            bundles.append(p)
        elif kind == "M":
            multi.append(p)
        elif kind == "W":
            warm.append(p)
        elif kind == "I":
            cases.append((len(cases), "TI %s %s %s" % (q(hx(p[1])), q(hx(p[2])), coq_list(q(hx(x)) for x in p[3:])),
                          {"kind": "I", "line": line}))
        elif kind == "N":
            cases.append((len(cases), "TN %s %s %s" % (q(hx(p[1])), q(hx(p[2])), q(hx(p[3]))), {"kind": "N", "line": line}))
        elif kind == "G":
            cases.append((len(cases), "TG %s %s %s %s" % (q(hx(p[1])), q(hx(p[2])), q(hx(p[3])), q(hx(p[4]))),
                          {"kind": "G", "line": line}))
    n_small = len(cases)

    def hexs(s):
        return s.encode().hex()

    # ---- Coq preamble: configurations and layouts
    def coq_cfg(c):
        srcs = coq_list("(B %s, P %s)" % (q(hexs(k)), q(hexs(v))) for k, v in sorted(c["sources"].items()))
        proj = "None" if c["project"] is None else "Some (P %s)" % q(hexs(c["project"]))
        return "{| c_luau := %s; c_mfn := B %s; c_sources := %s; c_project := %s; c_use_rc := %s |}" % (
            "true" if c["luau"] else "false", q(c["mfn_hex"]), srcs, proj, "true" if c["rc"] else "false")

    def coq_layout(l):
        opt = coq_list("P " + q(hexs(f)) for f in l["optional"])
        base = coq_list("P " + q(hexs(f)) for f in l["base"])
        rcs = coq_list("(P %s, %s)" % (q(hexs(d)), coq_list("(B %s, P %s)" % (q(hexs(k)), q(hexs(v)))
                                                           for k, v in sorted(al.items()))) for d, al in l["rc"])
        return "(%s, %s, (%s : rc_files))" % (opt, base, rcs)

    pre = PREAMBLE_HEAD
    pre += "Definition cfg_of (id : N) : config :=\n  match id with\n"
    for name, k in cfg_ids.items():
        pre += "  | %d => %s\n" % (k, coq_cfg(cfgs[name]))
    pre += "  | _ => {| c_luau := false; c_mfn := []; c_sources := []; c_project := None; c_use_rc := false |}\n  end.\n"
    pre += "Definition layout_of (id : N) : list path * list path * rc_files :=\n  match id with\n"
    for name, k in lay_ids.items():
        pre += "  | %d => %s\n" % (k, coq_layout(layouts[name]))
    pre += "  | _ => ([], [], [])\n  end.\n"
    pre += PREAMBLE_TAIL

    # ---- resolution cases: correspondence term + documented-order oracle
    stats = {"res_eval": 0, "res_found": 0, "res_unspecified": 0, "conv_eval": 0, "conv_found": 0}
    res_dev = {}      # class -> [count, witness]
    res_unclassified = []

    def note(table, key, witness):
        if key not in table:
            table[key] = [0, witness]
        table[key][0] += 1

    for p in resolution:
        cfg, lay, src, lit = cfgs[p[1]], layouts[p[2]], unhex(p[3]), unhex(p[4])
        results = p[5:]
        table, index, codes = [], {}, []
        for r in results:
            if r not in index:
                index[r] = len(table)
                table.append(r)
            codes.append(index[r])
        term = "TR %d %d %s %s %s %s" % (cfg_ids[p[1]], lay_ids[p[2]], q(hx(p[3])), q(hx(p[4])),
                                        coq_list(q(hx(t)) for t in table), coq_list("%d" % c for c in codes))
        cases.append((len(cases), term, {"kind": "R", "cfg": p[1], "layout": p[2], "src": src, "literal": lit}))
        # documented oracle
        stats["res_eval"] += len(results)
        try:
            doc = documented_target(cfg, lay, src, lit)
        except Unspecified:
            doc = None
        mfn = "init" if cfg["luau"] else cfg["mfn"]
        cands = documented_candidates(doc[1], mfn) if doc and doc[0] == "path" else None
        base_present = set(x for x in (lexical(f) for f in lay["base"]) if x is not None)
        base_present |= set(lexical(pjoin(d, ".luaurc")) for d, _ in lay["rc"])
        for mask, r in enumerate(results):
            found = not r.startswith("!")
            if found:
                stats["res_found"] += 1
            if doc is None:
                stats["res_unspecified"] += 1
                continue
            present = set(base_present)
            for i, f in enumerate(lay["optional"]):
                if mask >> i & 1:
                    present.add(lexical(f))
            expect = first_existing(cands, present) if cands is not None else None
            got = lexical(unhex(r)) if found else None
            if expect == got:
                continue
            witness = {"config": cfg["id"], "layout_files_present": sorted(present), "requiring_file": src,
                       "require": lit, "resolved_by_darklua": unhex(r) if found else r,
                       "documented_resolution": expect if expect is not None else "error"}
            root, parts = split_components(lit)
            first = parts[0] if parts else ""
            nroot, nparts = split_components(lexical(lit) or "")
            if not root and first not in (".", "..") and (not nparts or nparts[0] != first):
                note(res_dev, "alias-collapsed-by-normalize@match_require.rs:match_path_require_call", witness)
            elif cfg["luau"] and not root and first not in (".", "..") and not first.startswith("@"):
                note(res_dev, "luau-alias-without-at@luau_path_locator.rs:find_require_path", witness)
            elif (not cfg["luau"]) and cfg["rc"] and first in cfg["sources"] and first.startswith("@"):
                note(res_dev, "path-luaurc-precedence@path_require_mode.rs:get_source", witness)
            elif cfg["luau"] and first in (".", "..") and src in ("init.lua", "init.luau"):
                note(res_dev, "luau-toplevel-init-parent@luau_path_locator.rs:find_require_path", witness)
            else:
                res_unclassified.append(witness)

    # ---- conversion cases
    conv_dev = {}
    conv_unclassified = []
    for p in conversion:
        cur, tgt, lay, src, lit = cfgs[p[1]], cfgs[p[2]], layouts[p[3]], unhex(p[4]), unhex(p[5])
        results = p[6:]
        table, index, codes = [], {}, []
        for r in results:
            if r not in index:
                index[r] = len(table)
                table.append(r)
            codes.append(index[r])

        def triple(t):
            a, b, c = t.split(";")
            return "(%s, %s, %s)" % (q(hx(a)), q(hx(b)), q(hx(c)))
        term = "TV %d %d %d %s %s %s %s" % (cfg_ids[p[1]], cfg_ids[p[2]], lay_ids[p[3]], q(hx(p[4])), q(hx(p[5])),
                                           coq_list(triple(t) for t in table), coq_list("%d" % c for c in codes))
        cases.append((len(cases), term, {"kind": "V", "current": p[1], "target": p[2], "layout": p[3], "src": src, "literal": lit}))
        stats["conv_eval"] += len(results)
        tmfn = "init" if tgt["luau"] else tgt["mfn"]
        base_present = set(x for x in (lexical(f) for f in lay["base"]) if x is not None)
        for mask, t in enumerate(results):
            f, g, r = t.split(";")
            if f.startswith("!"):
                continue
            stats["conv_found"] += 1
            fpath = unhex(f)
            ok = not g.startswith("!") and not r.startswith("!") and lexical(unhex(r)) == lexical(fpath)
            if ok:
                continue
            present = set(base_present)
            for i, x in enumerate(lay["optional"]):
                if mask >> i & 1:
                    present.add(lexical(x))
            witness = {"current": cur["id"], "target": tgt["id"], "files_present": sorted(present), "requiring_file": src,
                       "require": lit, "resolves_to": fpath, "converted_require": g if g.startswith("!") else unhex(g),
                       "converted_resolves_to": r if r.startswith("!") or r == "~" else unhex(r)}
            nf = lexical(fpath)
            stripped = strip_documented(nf, tmfn)
            ambiguous = first_existing(documented_candidates(stripped, tmfn), present) != nf
            gen = "" if g.startswith("!") else unhex(g)
            gfirst = gen.split("/")[0] if gen else ""
            if ambiguous:
                note(conv_dev, "ambiguous-after-strip@generate_require", witness)
            elif starts_relative(fpath) and "/" in lexical(src):
                note(conv_dev, "cwd-relative-result-reused-as-file-relative@generate_require", witness)
            elif tgt["luau"] and tgt["rc"] and gfirst in tgt["sources"] and any(gfirst[1:] in al for _, al in lay["rc"]):
                note(conv_dev, "luaurc-shadows-alias@luau_require_mode.rs:get_source", witness)
            elif tgt["luau"] and gfirst in tgt["sources"] and not gfirst.startswith("@"):
                note(conv_dev, "luau-alias-without-at@luau_path_locator.rs:find_require_path", witness)
            else:
                conv_unclassified.append(witness)

    # ---- model = code, inside Coq
    bad = C.run_coq_cases(ctx.prop, pre, [(c[0], c[1]) for c in cases], chunk=120 if ctx.tier == "quick" else 200)
    bad_ids = {cid: diag for cid, diag in bad}
    small_bad = [(cases[cid][2], d) for cid, d in bad if cases[cid][2]["kind"] in "ING"]
    r_bad = [(cases[cid][2], d) for cid, d in bad if cases[cid][2]["kind"] == "R"]
    v_bad = [(cases[cid][2], d) for cid, d in bad if cases[cid][2]["kind"] == "V"]

    # ---- front door agreement (hooks vs the rule object vs darklua_core::process)
    e2e_bad = [p for p in e2e if p[7] != p[8] or (p[9] != "~" and p[9] != p[8])]
    e2e_process = sum(1 for p in e2e if p[9] != "~")

    # ---- bundling through process: the bundle contains exactly the file the locator (hook) resolved
    bundle_bad, bundle_found = [], 0
    for p in bundles:
        hook, got = p[6], p[7]
        if hook.startswith("!"):
            ok = got.startswith("!") or got == "-"
        elif lexical(unhex(hook)) == lexical(unhex(p[4])):
            ok = True       # the file requires itself: the bundler reports the cycle
        else:
            bundle_found += 1
            ok = (not got.startswith("!")) and got != "-" and \
                set(lexical(unhex(x)) for x in got.split(",")) == {lexical(unhex(hook))}
        if not ok:
            bundle_bad.append(p)

    # ---- two modules in different folders with the same require spelling: each inlines its own target
    multi_bad, multi_distinct = [], 0
    for p in multi:
        expected, got = p[5], p[7]
        if p[6] == "distinct" and not expected.startswith("!"):
            multi_distinct += 1
        if expected.startswith("!"):
            ok = got.startswith("!")
        else:
            ok = not got.startswith("!") and set(expected.split(",")) == set(got.split(","))
        if not ok:
            multi_bad.append(p)

    sample_r = [{"config": resolution[k][1], "layout": resolution[k][2], "requiring_file": unhex(resolution[k][3]),
                 "require": unhex(resolution[k][4]), "results_over_all_subsets": sorted(set(
                     (x if x.startswith("!") else unhex(x)) for x in resolution[k][5:]))}
                for k in (0, len(resolution) // 2, len(resolution) - 1)] if resolution else []
    ctx.stream("find_require: model vs Rust on every subset of the optional files; documented-order oracle on the Rust result",
               stats["res_eval"], stats["res_found"], sample_r, mismatches=len(r_bad),
               cases=len(resolution), oracle_unspecified=stats["res_unspecified"],
               documented_deviations={k: v[0] for k, v in res_dev.items()}, unclassified=len(res_unclassified))
    sample_v = [{"current": conversion[k][1], "target": conversion[k][2], "requiring_file": unhex(conversion[k][4]),
                 "require": unhex(conversion[k][5])} for k in (0, len(conversion) // 2)] if conversion else []
    ctx.stream("convert_require: find/generate/find, model vs Rust; target preservation oracle on the Rust results",
               stats["conv_eval"], stats["conv_found"], sample_v, mismatches=len(v_bad), cases=len(conversion),
               target_changes={k: v[0] for k, v in conv_dev.items()}, unclassified=len(conv_unclassified))
    ctx.stream("candidate iterator, normalize, get_relative_path, write_require_path: model vs Rust", n_small, n_small, [],
               mismatches=len(small_bad))
    ctx.stream("hooks vs the ConvertRequire rule object vs darklua_core::process (generated argument)", len(e2e),
               e2e_process, [], mismatches=len(e2e_bad))

    ctx.stream("bundling through darklua_core::process (configuration file at the configuration location): bundled file "
               "vs the locator hook", len(bundles), bundle_found, [], mismatches=len(bundle_bad))

    ctx.stream("bundles of two modules in different folders that write the same require spelling: files in the bundle vs the "
               "locator hook applied from each module", len(multi), multi_distinct, [], mismatches=len(multi_bad))

    # the .luaurc lookup cache is shared by the files of one run: warm (other files of the layout resolved first, in
    # either order) vs cold (first lookup of a run)
    warm_bad = [p for p in warm if p[7] != p[6] or p[8] != p[6]]
    warm_found = sum(1 for p in warm if not p[6].startswith("!"))
    ctx.stream("find_require with a warm .luaurc cache (the other requiring files of the layout resolved first, both "
               "orders) vs a cold cache", len(warm), warm_found, [], mismatches=len(warm_bad))

    def shown(x):
        return x if x.startswith("!") else unhex(x)
    for p in warm_bad[:2]:
        ctx.violation("a require resolves to a different file when other files of the same run were resolved before it "
                      "(.luaurc cache)",
                      {"config": p[1], "layout": p[2], "requiring_file": unhex(p[3]), "require": unhex(p[4]), "mask": p[5],
                       "cold": shown(p[6]), "after_the_other_files": shown(p[7]), "after_the_other_files_reversed": shown(p[8]),
                       "luaurc": [(d, al) for d, al in layouts[p[2]]["rc"]],
                       "replay": "in one run (no clear_luau_configuration_cache in between) resolve the same require "
                                 "from the other requiring files of the layout, then from this one"},
                      key="warm-cache:%s:%s:%s:%s" % (p[1], p[2], unhex(p[3]), unhex(p[4])))

    # ---- verdicts
    for key, (count, witness) in sorted(res_dev.items()):
        witness = dict(witness, occurrences=count)
        ctx.violation("resolution differs from the documented resolution: " + KNOWN_CLASSES[key], witness, key=key)
    for key, (count, witness) in sorted(conv_dev.items()):
        witness = dict(witness, occurrences=count)
        ctx.violation("convert_require changes the file a require resolves to: " + KNOWN_CLASSES[key], witness, key=key)
    for witness in res_unclassified[:2]:
        ctx.violation("a require does not resolve to the first existing documented candidate", witness)
    for witness in conv_unclassified[:2]:
        ctx.violation("convert_require changes the file a require resolves to", witness)
    if e2e_bad and not ctx.violations:
        p = e2e_bad[0]
        ctx.violation("the ConvertRequire rule / process front door generate a different argument than the hooks",
                      {"line": " ".join(p), "mismatches": len(e2e_bad)}, found_input=False)
    for p in multi_bad[:2]:
        def names(x):
            return x if x.startswith("!") or x == "-" else sorted(unhex(y) for y in x.split(","))
        ctx.violation("a bundle does not inline, for each module, the file its require resolves to from that module "
                      "(same spelling in two folders)",
                      {"config": p[1], "modules": p[2], "entry_order": p[3], "require_in_both_modules": unhex(p[4]),
                       "files_expected_in_bundle": names(p[5]), "files_in_bundle": names(p[7]),
                       "project": "main.lua requires two modules (a/ and c/b/); each module is `return { <its path>, require(<spelling>) }`; "
                                  "util.lua, a/util.lua, c/util.lua, c/b/util.lua, x.lua, c/x.lua, a/x.lua, c/b/x.lua, util/init.lua return their path"},
                      key="bundle-same-spelling:%s:%s:%s" % (p[1], p[2], unhex(p[4])))
    if bundle_bad and not ctx.violations:
        p = bundle_bad[0]
        ctx.violation("bundling through process embeds a different file than the locator hook resolves",
                      {"config": p[1], "layout": p[2], "mask": p[3], "requiring_file": unhex(p[4]), "require": unhex(p[5]),
                       "hook": p[6] if p[6].startswith("!") else unhex(p[6]),
                       "bundled_files": p[7] if p[7].startswith("!") or p[7] == "-" else [unhex(x) for x in p[7].split(",")],
                       "mismatches": len(bundle_bad)}, found_input=False)
    mismatch = small_bad + r_bad + v_bad
    if mismatch and not ctx.violations:
        info, diag = mismatch[0]
        ctx.violation("correspondence broken: the Rust code differs from Model/Paths.v / Model/Require.v "
                      "(theorems no longer apply to the code); the property-level oracles found no failing input",
                      {"case": info, "diag": decode_diag(diag), "mismatches": len(mismatch)}, found_input=False)
    if not proofs_ok and not ctx.violations:
        failed = [n for n, ok, _ in ctx.obligations if not ok]
        ctx.violation("proof obligation no longer checks: " + "; ".join(failed), {"obligations": failed}, found_input=False)


def decode_diag(d):
    out = []
    for tok in d.split(" "):
        if "=" in tok:
            k, v = tok.split("=", 1)
            parts = []
            for x in v.split(";"):
                try:
                    parts.append(bytes.fromhex(x).decode() if x and not x.startswith(("!", "~")) else x)
                except ValueError:
                    parts.append(x)
            out.append(k + "=" + ";".join(parts))
        else:
            try:
                out.append(bytes.fromhex(tok).decode())
            except ValueError:
                out.append(tok)
    return " ".join(out)


def replay(ctx, path):
    r = json.load(open(path))
    print(json.dumps(r, indent=1))
    w = r.get("replay", {})
    if "requiring_file" in w and "require" in w:
        cur = w.get("current", w.get("config"))
        tgt = w.get("target", w.get("config"))
        files = [f for f in w.get("files_present", w.get("layout_files_present", [])) if f]
        if cur and tgt:
            C.build_harness("dl-c15")
            print("re-running on the current tree: find (current mode); generate (target mode); find (target mode)")
            print(C.harness("dl-c15", ["one", cur, tgt, w["requiring_file"], w["require"]] + files))
    return 0
