"""C08 - static evaluation never disagrees with real execution."""
from . import common as C

META = {
    "title": "Static evaluation never disagrees with real execution",
    "level": "proof",
    "design_ref": "DESIGN.md section 6 / C08",
    "technique": "Coq soundness theorems of a Gallina model of the static evaluator against a fuel-indexed "
                 "reference Lua semantics; model tied to the Rust evaluator by differential runs evaluated in Coq",
    "level_text": "Machine-checked theorems: whenever the modelled evaluator assigns a definite value, the reference "
                  "interpreter's result (if not an error) is that value bit for bit; a `no side effects` verdict means the "
                  "store is only extended by fresh allocations (no event, no metamethod); a `single value` verdict means "
                  "exactly one value - for every expression, environment, store and fuel. The model is compared with "
                  "Evaluator::{evaluate,has_side_effects,can_return_multiple_values} on generated expression trees each run, "
                  "and the Rust verdicts are also checked directly against the reference interpreter in an adversarial "
                  "environment (the search oracle).",
    "level_note": "Trusted: Coq kernel + vm_compute; the reference semantics Lua/Sem.v and Lib/F64.v (specification; "
                  "pow only on the cases F64.fpow defines); harness + astdump printer. Preconditions of the theorems (decidable, from the property's own exclusion of points where Lua 5.1 and "
                  "Luau disagree): deep_safe (number rendering in `..`, Luau `%`), ctor_pure, env_plain.",
    "trusted_base": ["Coq 8.16.1 kernel, vm_compute", "standard-library axioms via Flocq (validity of binary_round_aux): sig_not_dec, sig_forall_dec, functional_extensionality_dep, classic", "Lua/Sem.v reference semantics + Lib/F64.v (specification)",
                     "harness/crates/c08 + astdump (AST printer)", "Rust f64 arithmetic = IEEE binary64"],
    "allowed_axioms": ["ClassicalDedekindReals.sig_not_dec", "ClassicalDedekindReals.sig_forall_dec",
                       "FunctionalExtensionality.functional_extensionality_dep", "Classical_Prop.classic"],
    "rule": "every leaf of a 64-leaf alphabet alone and under each unary operator; all binary operators over leaf pairs "
            "(sampled 1/12 in quick, exhaustive in thorough); seeded random trees to depth 4 over all 19 expression kinds; "
            "non-trivial = the evaluator returns a known value or claims purity for a non-leaf expression; distinct by printed term",
    "assumptions": ["Lua/Sem.v is a faithful reference semantics on the modelled fragment",
                    "the environment has a plain globals table and string metatable (env_plain)"],
}

PREAMBLE = """From Coq Require Import ZArith.
From DL Require Import Lib.Bytes Lib.F64 Lua.Syntax Lua.Sem Model.Evaluator Lua.EvalSpec Lua.EvalCheck.
Open Scope N_scope.
Open Scope string_scope.
Definition bx := unhex.
Definition nm := of_string.
Definition FUEL := 60%nat.
(* case = (expr, (claimed value, (claimed side effects, claimed multi))) *)
Definition c_e (c : expr * (lv * (bool * bool))) := fst c.
Definition c_v (c : expr * (lv * (bool * bool))) := fst (snd c).
Definition c_se (c : expr * (lv * (bool * bool))) := fst (snd (snd c)).
Definition c_mu (c : expr * (lv * (bool * bool))) := snd (snd (snd c)).
Definition model_ok c :=
  (pow_gap (c_e c) ||
   (lv_eqb (evaluate (c_e c)) (c_v c) && Bool.eqb (has_side_effects false (c_e c)) (c_se c)))
  && Bool.eqb (can_return_multiple_values (c_e c)) (c_mu c).
Definition value_ok c := claim_value_ok FUEL (c_e c) (c_v c).
Definition pure_ok c := claim_pure_ok FUEL (c_e c) (c_se c).
Definition single_ok c := claim_single_ok FUEL (c_e c) (c_mu c).
Definition check_case c := model_ok c && value_ok c && pure_ok c && single_ok c.
Definition diag_case c : string :=
  (if model_ok c then "" else "MODEL ") ++
  (if value_ok c then "" else
     "VALUE ") ++
  (if pure_ok c then "" else "PURE ") ++
  (if single_ok c then "" else "SINGLE ") ++ outcome_tag FUEL (c_e c).
"""



def run(ctx):
    C.build_harness("dl-c08")
    proofs_ok = C.proof_gate(ctx, ["Lua/EvalCheck.vo"])

    n = 2500 if ctx.tier == "quick" else 40000
    args = ["exprs", "--seed", str(ctx.seed), "--n", str(n)]
    if ctx.tier != "quick":
        args.append("--exhaustive2")
    out = C.harness("dl-c08", args)
    cases, seen, nontrivial = [], set(), 0
    for line in out.splitlines():
        parts = line.split("\t")
        if len(parts) != 5 or parts[0] in seen:
            continue
        seen.add(parts[0])
        term, lv, se, multi, text = parts
        cid = len(cases)
        cases.append((cid, "(%s, (%s, (%s, %s)))" % (term, lv, se, multi), text, lv, se, multi))
        if (lv != "LUnknown" or se == "false") and term.count("(") > 2:
            nontrivial += 1
    bad = C.run_coq_cases(ctx.prop, PREAMBLE, [(c[0], c[1]) for c in cases], chunk=250)
    samples = [{"lua": c[2], "evaluate": c[3], "has_side_effects": c[4], "can_return_multiple_values": c[5]}
               for c in cases[-3:]]
    ctx.stream("evaluator: model vs Rust, and Rust verdicts vs reference interpreter (adversarial environment)",
               len(cases), nontrivial, samples, mismatches=len(bad))

    model_mismatch = []
    for cid, diag in bad:
        c = cases[cid]
        replay = {"lua_expression": c[2], "coq_term": c[1], "rust_evaluate": c[3], "rust_has_side_effects": c[4],
                  "rust_can_return_multiple_values": c[5], "diag": diag,
                  "replay": "Evaluator::default() on the expression; reference run: Lua/EvalCheck.v adv_eval"}
        concrete = False
        if "VALUE " in diag:
            ctx.violation("static value differs from the value the reference interpreter computes", replay)
            concrete = True
        if "PURE " in diag:
            ctx.violation("declared free of side effects but execution changes the store / trace", replay)
            concrete = True
        if "SINGLE " in diag:
            ctx.violation("declared single-valued but execution yields a different number of values", replay)
            concrete = True
        if "MODEL" in diag and not concrete:
            model_mismatch.append(replay)
    if model_mismatch and not ctx.violations:
        ctx.violation("correspondence broken: Rust evaluator differs from Model/Evaluator.v on %d expressions "
                      "(theorems no longer apply to the code); no verdict contradicted the reference interpreter"
                      % len(model_mismatch),
                      dict(model_mismatch[0], stream="evaluator model-vs-code"), found_input=False)
    if not proofs_ok and not ctx.violations:
        failed = [n for n, ok, _ in ctx.obligations if not ok]
        ctx.violation("proof obligation no longer checks: " + "; ".join(failed), {"obligations": failed},
                      found_input=False)


def replay(ctx, path):
    import json
    print(json.dumps(json.load(open(path)), indent=1))
    return 0
