"""C05 - a bundle behaves like the program with its modules required normally."""
import json
import random
import re

from . import common as C
from . import c05_gen as G

META = {
    "title": "A bundle behaves like the program with its modules required normally",
    "level": "proof",
    "design_ref": "DESIGN.md section 6 / C05",
    "technique": "Coq theorems on a Gallina model of the bundler's module-graph algorithm (inline_require: cache, require "
                 "stack, skip set, post-order definitions, name generation) - termination, cycle <=> error, once-only, "
                 "shared instance - tied to the Rust bundler on every run by comparing, inside Coq, the model's output "
                 "(definition order, names, call-site -> module mapping, error list) with the shape of the real bundle; "
                 "the whole-program claim is checked by executing the real bundle and the entry under a standard `require` "
                 "written in Lua in the Coq reference interpreter (vm_compute) and comparing traces",
    "level_text": "Machine-checked theorems over all module graphs (any size, cyclic or not, with missing and malformed "
                  "files) about the modelled bundling algorithm: it terminates, it fails iff the reachable graph has a "
                  "cycle or an improper module (and a cyclic-require error names a genuine cycle), and on success every "
                  "file reachable from the entry is defined exactly once and every call site denotes the definition of "
                  "the file it resolves to; plus code-level theorems in the reference semantics about the emitted "
                  "accessor (a hit returns the boxed value, nil/false included, without running anything; a miss runs "
                  "the body once and caches it). On every run the graph model and the wrapper code are compared with "
                  "the real bundler on generated projects and on all small graphs (cyclic ones included), and each real "
                  "bundle is executed in the Coq reference interpreter against the entry run under a standard require. "
                  "PARTIAL: the whole-program statement run(bundle) = run(entry under require) is not a theorem (it "
                  "needs a store simulation for arbitrary module bodies); that link is validated per run by execution.",
    "level_note": "Trusted: Coq kernel + vm_compute; Lua/Sem.v (reference semantics) and Lua/RunCheck.v; the reference "
                  "`require` written in Lua (vlib/c05_gen.py REFERENCE_PRELUDE); harness dl-c05 + astdump; darklua's parser "
                  "to read programs. Path resolution is taken from the generator (validated per run, modelled in C15).",
    "trusted_base": ["Coq 8.16.1 kernel, vm_compute", "Lua/Sem.v + Lua/RunCheck.v (specification)",
                     "reference require in Lua (vlib/c05_gen.py)", "harness/crates/c05 + astdump",
                     "darklua's parser (reading entry, modules, written bundle)"],
    "allowed_axioms": [],
    "rule": "100 (thorough 1000) seeded acyclic module graphs of 2-7 files (Lua modules returning tables/functions/strings/numbers/booleans, "
            "json/json5/yaml/toml/txt data files) with shared and diamond dependencies, several relative spellings of a "
            "file, requires in 18 syntactic positions, identically named locals, excludes, skipped call forms, x require "
            "mode {path, luau} x generator {readable, dense, retain_lines} x optional rule pipeline; the same relative "
            "literal written in different directories where it denotes different files (plain, init-folder and entry "
            "requirers; with/without extension, folder modules, `../`); plus every digraph "
            "on 2-3 (thorough: 4) files for the error side, and defect injections (missing file, syntax error, two "
            "or three return values, no return, bare `return`, return inside a final do block, malformed data). A behaviour case is non-trivial when the reference run gives "
            "a verdict and some module is required from two places or from a nested position; distinct by project text",
    "assumptions": ["whole-program link not proved: wrapper_miss/wrapper_once take the run of the module body and the frame "
                    "conditions on the store it leaves (modules table, cache table and the fresh box untouched) as "
                    "hypotheses; composing them over a whole bundle is validated by execution on every run",
                    "path resolution of requires as computed by the generator (validated per run; C15 models it)",
                    "module bodies of the generated projects have no externally visible effect at require time and return "
                    "exactly one value (the property's precondition)"],
}

FUEL = 700

PREAMBLE = """From Coq Require Import ZArith.
From DL Require Import Lib.Bytes Lib.F64 Lua.Syntax Lua.Sem Lua.RunCheck.
Open Scope N_scope.
Open Scope string_scope.
Definition bx := unhex.
Definition nm := of_string.
(* case = (fuel, (reference program, bundle)) *)
Definition stat_case (c : nat * (block * block)) : N := compare_all (fst c) (fst (snd c)) (snd (snd c)).
"""

SHAPE_PREAMBLE = """From Coq Require Import NArith List Bool.
From DL Require Import Lib.Bytes Lua.RunCheck Model.Rename Model.Bundle.
Import ListNotations.
Open Scope N_scope.
Open Scope string_scope.
Definition nm := of_string.
Inductive expected :=
| XBundled (ms : list (name * (file * list name))) (sites : list name)
| XFailed (es : list error).
Definition req_free (x : site) : bool := match x with Some _ => true | None => false end.
Definition mod_eqb (a b : name * (file * list name)) : bool :=
  bytes_eqb (fst a) (fst b) && (N.eqb (fst (snd b)) 999999 || N.eqb (fst (snd a)) (fst (snd b))) && list_eqb bytes_eqb (snd (snd a)) (snd (snd b)).
Definition error_eqb (a b : error) : bool :=
  match a, b with
  | ENotFound x, ENotFound y => N.eqb x y
  | ECyclic x, ECyclic y => list_eqb N.eqb x y
  | EResource x, EResource y => N.eqb x y
  | EModule x, EModule y => N.eqb x y
  | _, _ => false
  end.
Definition model_ok (c : graph * list req * expected) : bool :=
  match bundle (fst (fst c)) (snd (fst c)), snd c with
  | Bundled ms sites, XBundled xms xsites =>
    list_eqb mod_eqb (render_modules ms) xms && list_eqb bytes_eqb (map site_name sites) xsites
  | Failed es, XFailed xes => list_eqb error_eqb es xes
  | _, _ => false
  end.
Definition check_case (c : graph * list req * expected) : bool := model_ok c.
Definition show_sites (l : list name) : string := tohex (List.concat (map (fun x : name => (x ++ [32%N])%list) l)).
Definition diag_case (c : graph * list req * expected) : string :=
  match bundle (fst (fst c)) (snd (fst c)) with
  | Bundled ms sites => ("model: bundled, entry sites (hex) " ++ show_sites (map site_name sites)
                        ++ " definition order (hex names) " ++ show_sites (map fst (render_modules ms)))%string
  | Failed es => ("model: failed with " ++ tohex (dec_digits (N.of_nat (List.length es))) ++ " error(s)")%string
  | OutOfFuel => "model: out of fuel"
  end.
"""

WRAP_PREAMBLE = """From Coq Require Import ZArith NArith List Bool.
From DL Require Import Lib.Bytes Lua.Syntax Model.BundleWrapper.
Import ListNotations.
Open Scope N_scope.
Open Scope string_scope.
Definition bx := unhex.
Definition nm := of_string.
(* case = (modules identifier, written bundle) *)
Definition check_case (c : name * block) : bool := wrapper_ok (fst c) (snd c).
Definition diag_case (c : name * block) : string := "the prefix of the bundle is not Model/BundleWrapper.v's code".
"""

KEY_SHADOW = "require-shadowing-ignored-in-required-module:DefaultVisitor"
KEY_NIL = "nil-module-value:boxed-cache-returns-nil"
KEY_JSON5 = "json5-nonfinite-number-becomes-nil@serde_json::Value"
KEY_DOT = "same-file-two-path-keys:root-level-module-requires-dot-prefixed"
KEY_DATA_ERR = "malformed-data-error-does-not-name-the-file:transcode"

GENERATORS = ["readable", "dense", "retain_lines"]
PIPELINES = [
    [], [], [],
    ["remove_unused_variable"],
    ["rename_variables"],
    ["remove_types", "remove_unused_variable", "rename_variables"],
    ["remove_spaces", "remove_comments", "compute_expression", "remove_unused_if_branch", "remove_unused_while",
     "filter_after_early_return", "remove_empty_do", "remove_unused_variable", "remove_method_definition",
     "convert_index_to_field", "remove_nil_declaration", "rename_variables", "remove_function_call_parens"],
    ["remove_function_call_parens", "convert_index_to_field"],
    ["remove_types", "remove_empty_do", "group_local_assignment"],
]


def config_text(proj, generator, rules, modules_identifier):
    mode = '"%s"' % proj["mode"]
    if proj.get("alias_config"):
        mode = '{ name: "%s", %s: %s }' % (proj["mode"], "sources" if proj["mode"] == "path" else "aliases",
                                            json.dumps(proj["alias_config"]))
    elif proj["mode"] == "path" and proj.get("mode_object"):
        mode = '{ name: "path", module_folder_name: "init" }'
    parts = ["require_mode: %s" % mode]
    if modules_identifier:
        parts.append("modules_identifier: %s" % json.dumps(modules_identifier))
    if proj.get("excludes"):
        parts.append("excludes: %s" % json.dumps(proj["excludes"]))
    return "{ generator: %s, rules: %s, bundle: { %s } }" % (json.dumps(generator), json.dumps(rules), ", ".join(parts))


def unhex_msg(col):
    for pre in ("ERR:", "PANIC:", "BAD:"):
        if col.startswith(pre):
            return pre[:-1], bytes.fromhex(col[len(pre):]).decode("utf-8", "replace")
    if col == "HANG":
        return "HANG", "no answer within the time limit"
    if col == "CRASH":
        return "CRASH", "the process running darklua died (stack overflow or abort)"
    if col == "SKIPPED":
        return "SKIPPED", "not run (the harness had already died five times in this batch)"
    return "OK", ""


def run_harness(jobs):
    """jobs: list of dicts (id, files, entry, config, [reference], [modules_identifier]) -> {id: columns}.
    A project that kills the harness process (stack overflow, abort) is reported as CRASH and the
    remaining projects are run in a fresh process."""
    res = {}
    pending = list(jobs)
    crashes = 0
    while pending:
        stdin = "".join(json.dumps(j) + "\n" for j in pending)
        out = C.harness("dl-c05", ["run"], input=stdin, timeout=3600, check=False)
        for line in out.splitlines():
            parts = line.split("\t")
            if len(parts) != 5 or not re.match(r"-?\d+$", parts[0]):
                continue
            res[int(parts[0])] = parts[1:]
        missing = [k for k, j in enumerate(pending) if j["id"] not in res]
        if not missing:
            break
        culprit = pending[missing[0]]
        res[culprit["id"]] = ["CRASH", "-", "-", "-"]
        crashes += 1
        pending = pending[missing[0] + 1:]
        if crashes >= 5:
            # enough witnesses: the rest of this batch is not run
            for j in pending:
                res.setdefault(j["id"], ["SKIPPED", "-", "-", "-"])
            break
    return res


# ---------------------------------------------------------------------------------------------
# shape of the real bundle / real error list -> Coq terms for the model comparison


def parse_shape(shape):
    """-> (modules [(name, marker path, [call names])], entry [call names]); unreplaced requires dropped"""
    mods, cur, entry = [], None, []
    for ev in shape.split():
        if ev == "I":
            cur = {"marker": None, "calls": []}
        elif ev.startswith("S"):
            if cur is not None and cur["marker"] is None:
                cur["marker"] = bytes.fromhex(ev[1:]).decode("utf-8", "replace")[2:].split(" ")[0].split("\n")[0]
        elif ev.startswith("C"):
            (cur["calls"] if cur is not None else entry).append(ev[1:])
        elif ev.startswith("D"):
            if cur is None:
                cur = {"marker": None, "calls": []}
            mods.append((ev[1:], cur["marker"], cur["calls"]))
            cur = None
        # "R": a call left to the host's require - not a call site of the model
    return mods, entry


def coq_names(names):
    return "[" + "; ".join('nm "%s"' % n for n in names) + "]"


def graph_term(proj, ids, lit_ids):
    def site(s):
        if isinstance(s, tuple):
            return "RNotFound %d" % lit_ids[s[1]]
        return "RFile %d" % ids[s]
    items = []
    for path, k in proj["graph"].items():
        if k[0] == "data":
            kt = "KData"
        elif k[0] == "broken":
            kt = "KBroken"
        else:
            ret = "None" if k[2] is None else "(Some %d%%nat)" % k[2]
            kt = "(KLua [%s] %s)" % ("; ".join(site(s) for s in k[1]), ret)
        items.append("(%d, %s)" % (ids[path], kt))
    roots = "[%s]" % "; ".join(site(s) for s in proj["roots"])
    return "[%s]" % "; ".join(items), roots


ERR_HEAD = re.compile(r"^error processing `[^`]*` \(bundler\):\s*", re.S)


def split_errors(message):
    body = ERR_HEAD.sub("", message.strip())
    if body.startswith("- "):
        return [x.strip() for x in re.split(r"\n- ", "\n" + body)[1:]]
    return [body.strip()]


def error_term(item, ids, lit_ids, proj):
    m = re.match(r"cyclic require detected with (.*)$", item, flags=re.S)
    if m:
        chain = re.findall(r"`([^`]*)`", m.group(1))
        if all(c in ids for c in chain):
            return "ECyclic [%s]" % "; ".join(str(ids[c]) for c in chain)
        return None
    m = re.match(r"unable to find `([^`]*)`", item)
    if m:
        for lit, k in lit_ids.items():
            if G.posixpath.normpath("src/" + lit) == m.group(1):
                return "ENotFound %d" % k
        return None
    m = re.match(r"unable to parse `([^`]*)`", item)
    if m and m.group(1) in ids:
        return "EResource %d" % ids[m.group(1)]
    m = re.match(r"invalid Lua module at `([^`]*)`", item)
    if m and m.group(1) in ids:
        return "EModule %d" % ids[m.group(1)]
    m = re.match(r"unable to require resource with extension `[^`]*` at `([^`]*)`", item)
    if m and m.group(1) in ids:
        return "EResource %d" % ids[m.group(1)]
    if re.match(r"unable to read (json|yaml|toml) data", item):
        d = proj.get("defect")
        if d and d[0] == "baddata":
            return "EResource %d" % ids[proj["paths"][d[1]]]
    return None


def expected_term(proj, cols, ids, lit_ids, modules_identifier_names):
    status, message = unhex_msg(cols[0])
    if status == "OK":
        mods, entry = parse_shape(cols[3])
        ms = []
        for name, marker, calls in mods:
            fid = ids.get(marker, 999999)
            ms.append('(nm "%s", (%d, %s))' % (name, fid, coq_names(calls)))
        return "XBundled [%s] %s" % ("; ".join(ms), coq_names(entry))
    if status == "ERR":
        terms = [error_term(it, ids, lit_ids, proj) for it in split_errors(message)]
        if any(t is None for t in terms):
            return "XFailed [EResource 999999]"
        return "XFailed [%s]" % "; ".join(terms)
    return None


def model_cases(projects, results):
    """(coq cases, index) comparing Model/Bundle.v with what the real bundler did"""
    cases, index = [], {}
    for pid, proj in projects.items():
        cols = results[pid]
        ids = {p: i for i, p in enumerate(sorted(proj["graph"].keys() | {s for k in proj["graph"].values() if k[0] == "lua"
                                                                       for s in k[1] if not isinstance(s, tuple)}))}
        lit_ids = {}
        for k in proj["graph"].values():
            if k[0] == "lua":
                for s in k[1]:
                    if isinstance(s, tuple) and s[1] not in lit_ids:
                        m = re.search(r"(\d+)$", s[1])
                        lit_ids[s[1]] = int(m.group(1)) if m else 500 + len(lit_ids)
        exp = expected_term(proj, cols, ids, lit_ids, None)
        if exp is None:
            continue
        g, roots = graph_term(proj, ids, lit_ids)
        k = len(cases)
        index[k] = pid
        cases.append((k, "(%s, %s, %s)" % (g, roots, exp)))
    return cases, index


# ---------------------------------------------------------------------------------------------


def behaviour_stream(ctx, rnd, n_random, proofs_ok, wide_widths=(140,)):
    projects, jobs, meta = {}, [], {}
    pid = 0

    def add(proj, generator, rules, ident, klass, fuel=None):
        nonlocal pid
        pid += 1
        projects[pid] = proj
        meta[pid] = {"generator": generator, "rules": rules, "modules_identifier": ident, "class": klass, "fuel": fuel}
        jobs.append({"id": pid, "files": proj["files"], "entry": proj["entry"],
                     "config": config_text(proj, generator, rules, ident), "reference": proj["reference"],
                     "modules_identifier": ident or "__DARKLUA_BUNDLE_MODULES"})

    wrnd0 = random.Random(20250926)
    for i in range(n_random):
        proj = G.gen_project(rnd)
        proj["mode_object"] = rnd.random() < 0.3
        add(proj, GENERATORS[i % 3], rnd.choice(PIPELINES), rnd.choice([None, None, "__M", "Bundle_1"]), "ordinary")
    # the same relative literal in different directories denoting different files
    k = 0
    for variant in G.TWIN_VARIANTS:
        for mode in ("path", "luau"):
            proj = G.twin_project(rnd, mode, variant)
            if proj is None:
                continue
            k += 1
            add(proj, GENERATORS[k % 3], rnd.choice([[], [], ["rename_variables"], ["remove_unused_variable"]]), None, "ordinary")
    # equal file names in different directories, required through `..` (acyclic: must bundle and behave)
    for li, paths in enumerate(G.SAMENAME_LAYOUTS):
        n = len(paths)
        adj = [[i + 1] if i + 1 < n else [] for i in range(n)]
        adj[0] = adj[0] + [n - 1] + ([2] if n > 3 else [])
        for mode in ("path", "luau"):
            k += 1
            add(G.layout_project(rnd, mode, paths, adj), GENERATORS[k % 3], rnd.choice([[], ["rename_variables"]]), None, "ordinary")
    # data files whose sequences have nulls that are not last: every index is read
    for fmt in ("json", "json5", "yaml", "yml"):
        for holes in ("map", "array"):
            k += 1
            add(G.data_holes_project(rnd, "luau" if k % 3 == 0 else "path", fmt, holes), GENERATORS[k % 3],
                rnd.choice([[], [], ["remove_unused_variable", "rename_variables"]]), None, "ordinary")
    # two distinct files with the same stem (Lua + data, lua + luau, data + data), both required
    for pi, pair in enumerate(G.SAMESTEM_PAIRS):
        for mode in ("path", "luau"):
            k += 1
            add(G.samestem_project(rnd, mode, pair, k % 3), GENERATORS[k % 3], rnd.choice([[], [], ["rename_variables"]]), None, "ordinary")
    # the same alias in the nearest .luaurc and in the configuration (reference = the unchanged tree, per mode)
    losers = {}
    for mode in ("luau", "path"):
        for rc_at_root in (False, True):
            k += 1
            proj = G.alias_precedence_project(rnd, mode, rc_at_root, k)
            add(proj, GENERATORS[k % 3], [], None, "ordinary")
            losers[pid] = proj
    # TOML special floats / datetimes / integers beyond 2^53, YAML .inf/.nan; JSON5 Infinity/NaN (recorded finding)
    for kind, fmt in (("toml-specials", "toml"), ("toml-specials", "toml"), ("toml-specials", "toml"), ("yaml-specials", "yaml")):
        k += 1
        add(G.data_holes_project(rnd, "luau" if k % 2 else "path", fmt, kind), GENERATORS[k % 3],
            rnd.choice([[], ["remove_unused_variable", "rename_variables"]]), None, "ordinary")
    # required .txt files are their content verbatim: CRLF, lone CR, LF CR, NUL and control bytes, BOM, no final newline
    for v in range(len(G.TXT_BYTES)):
        k += 1
        add(G.data_holes_project(rnd, "luau" if k % 3 == 0 else "path", "txt", "txt-bytes:%d" % v), GENERATORS[k % 3],
            rnd.choice([[], [], ["remove_unused_variable", "rename_variables"]]), None, "ordinary")
    k += 1
    add(G.data_holes_project(wrnd0, "path", "json5", "json5-nonfinite"), GENERATORS[k % 3], [], None, "json5nonfinite")
    # `;` after the last statement of blocks (with a comment behind it), entry shorter / longer than the modules
    semis = {}
    for gi, generator in enumerate(GENERATORS):
        for entry_long in (False, True):
            for rep in range(2 if generator == "retain_lines" else 1):
                k += 1
                proj = G.semicolon_project(rnd, "luau" if k % 4 == 0 else "path", entry_long, k)
                add(proj, generator, [], None, "ordinary")
                semis[pid] = proj
    # a wide project: more accessor names than there are one-letter identifiers
    wide = {}
    for width in wide_widths:
        k += 1
        add(G.wide_project(rnd, "path" if k % 2 else "luau", width), GENERATORS[k % 3], [], None, "ordinary", fuel=4 * width + 600)
        wide[pid] = width
    # a root-level module that requires a file also required from a sub-directory: recorded finding
    for vt in (["table", "table"], ["func", "table"]):
        k += 1
        add(G.layout_project(wrnd0, "path", ["src/main.lua", "src/x.lua", "util.lua"], [[1, 2], [], [1]], vtypes=vt),
            GENERATORS[k % 3], [], None, "dotprefix")
    # the two recorded deviations, a few witnesses each (fixed seeds so that the key names something reproducible)
    wrnd = random.Random(20250925)
    for i in range(4):
        add(G.gen_project(wrnd, want="nil", n=4), GENERATORS[i % 3], [], None, "nil")
    for i in range(6):
        add(G.gen_project(wrnd, want="shadow", n=4), GENERATORS[i % 3], [], None, "shadow")

    # a twin run without the rule pipeline: its shape (names, markers) is compared with the model
    twins = [dict(j, id=j["id"] + 100000, config=config_text(projects[j["id"]], meta[j["id"]]["generator"], [],
                                                              meta[j["id"]]["modules_identifier"]))
             for j in jobs if meta[j["id"]]["rules"]]
    for t in twins:
        t.pop("reference", None)
    results = run_harness(jobs + twins)
    coq_cases, index = [], {}
    failures = []
    for j in jobs:
        cols = results[j["id"]]
        status, message = unhex_msg(cols[0])
        rstatus, rmessage = unhex_msg(cols[1])
        if rstatus != "OK":
            raise C.CheckBroken("the reference program of project %d does not parse: %s\n%s" % (j["id"], rmessage, j["reference"][:3000]))
        if status == "SKIPPED":
            continue
        if status != "OK":
            failures.append((j["id"], status, message))
            continue
        k = len(coq_cases)
        index[k] = j["id"]
        coq_cases.append((k, "(%d%%nat, (%s, %s))" % (meta[j["id"]]["fuel"] or FUEL, cols[1], cols[0])))
    # the big (wide) programs first, each sharing its shard with the smallest programs: that shard starts at once
    big = [c for c in coq_cases if meta[index[c[0]]]["fuel"]]
    rest = sorted((c for c in coq_cases if not meta[index[c[0]]]["fuel"]), key=lambda c: len(c[1]))
    coq_cases = []
    for c in big:
        coq_cases += [c] + rest[:11]
        rest = rest[11:]
    random.Random(1).shuffle(rest)
    coq_cases += rest
    stats = C.run_coq_stats(ctx.prop, PREAMBLE, coq_cases, chunk=12, tag="behaviour")
    same = [index[k] for k, v in stats.items() if v == 0]
    noverdict = [index[k] for k, v in stats.items() if v == 1]
    differ = [index[k] for k, v in stats.items() if v == 2]
    nontrivial = len({json.dumps(projects[p]["files"], sort_keys=True) for p in same
                      if projects[p].get("shared") or projects[p].get("nested")})
    feats = {}
    for p in same:
        for f in projects[p]["features"]:
            feats[f] = feats.get(f, 0) + 1
    sample = [{"entry": projects[p]["files"][projects[p]["entry"]], "mode": projects[p]["mode"],
               "files": sorted(projects[p]["files"]), "generator": meta[p]["generator"], "rules": meta[p]["rules"]}
              for p in same[:2]]
    ctx.stream("run(entry under a standard require) vs run(real bundle) in the Coq reference interpreter",
               len(coq_cases), nontrivial, sample, projects=len(jobs), same=len(same), no_verdict=len(noverdict),
               differing=len(differ), bundler_failed=len(failures),
               with_shared_dependency=sum(1 for p in same if projects[p].get("shared")),
               with_nested_require=sum(1 for p in same if projects[p].get("nested")),
               luau_mode=sum(1 for p in same if projects[p]["mode"] == "luau"),
               with_rule_pipeline=sum(1 for p in same if meta[p]["rules"]),
               features=dict(sorted(feats.items())))
    if len(noverdict) > len(jobs) // 4:
        raise C.CheckBroken("the reference run gives no verdict for %d of %d projects (generator or fuel problem); first:\n%s"
                            % (len(noverdict), len(jobs), projects[noverdict[0]]["reference"][:4000]))

    def replay_of(p, extra=None):
        r = {"files": projects[p]["files"], "entry": projects[p]["entry"],
             "config": config_text(projects[p], meta[p]["generator"], meta[p]["rules"], meta[p]["modules_identifier"]),
             "reference": projects[p]["reference"],
             "replay": "dl-c05 run (one JSON line with files/entry/config/reference); compare_all of Lua/RunCheck.v on the two terms"}
        r.update(extra or {})
        return r

    for p in differ:
        klass = meta[p]["class"]
        key = None
        if klass == "shadow" and "module-shadows-require" in projects[p]["features"]:
            key = KEY_SHADOW
        if klass == "nil" and "nil-module" in projects[p]["features"]:
            key = KEY_NIL
        if klass == "dotprefix":
            key = KEY_DOT
        if klass == "json5nonfinite":
            key = KEY_JSON5
        ctx.violation("the bundle behaves differently from the entry run with a standard require",
                      replay_of(p, {"class": klass}), key=key)
    for p, status, message in failures:
        klass = meta[p]["class"]
        key = KEY_SHADOW if klass == "shadow" and "module-shadows-require" in projects[p]["features"] else None
        ctx.violation("darklua %s on a well-formed acyclic project: %s" % (
            {"ERR": "reports an error", "PANIC": "panics", "HANG": "hangs", "BAD": "writes an unparsable bundle",
             "CRASH": "crashes"}[status],
            message[:300]), replay_of(p, {"class": klass, "status": status}), key=key)
    for klass, key in (("shadow", KEY_SHADOW), ("nil", KEY_NIL), ("dotprefix", KEY_DOT), ("json5nonfinite", KEY_JSON5)):
        hit = [p for p in differ if meta[p]["class"] == klass] + [p for p, _, _ in failures if meta[p]["class"] == klass]
        if not hit and key in ctx.known:
            # the recorded deviation no longer shows: say so (the entry of known_findings.txt is stale)
            print("NOTE: known finding %s was not reproduced in this run" % key)

    # wide projects: every accessor name is a distinct identifier that is not a keyword (read off the real bundle)
    names_checked = 0
    for p, width in wide.items():
        status, _ = unhex_msg(results[p][0])
        if status != "OK":
            continue
        mods, _entry = parse_shape(results[p][3])
        names = [m[0] for m in mods]
        names_checked += len(names)
        badn = [n for n in names if not re.match(r"^[A-Za-z_][A-Za-z0-9_]*$", n) or n in G.LUA_KEYWORDS or n == "cache"]
        if len(names) != width + 1 or len(set(names)) != len(names) or badn:
            ctx.violation("the accessor names of a bundle of %d modules are not %d distinct non-keyword identifiers "
                          "(%d names, %d distinct, offending: %s)" % (width + 1, width + 1, len(names), len(set(names)), badn[:5]),
                          replay_of(p), key="accessor-names:%d" % width)
    # alias defined twice: the other target must not be in the bundle at all
    for p, proj in losers.items():
        status, _ = unhex_msg(results[p][0])
        if status == "OK" and "LOSER" in bytes.fromhex(results[p][2]).decode("utf-8", "replace"):
            ctx.violation("alias `@pkg` is defined in .luaurc and in the configuration: the bundle contains `%s`, the "
                          "unchanged tree bundles the other target in %s mode" % (proj["loser"], proj["mode"]), replay_of(p),
                          key="alias-precedence:%s" % proj["mode"])
    # retain_lines keeps every `;` that ends a block together with the comment behind it, once
    tags_checked = 0
    for p, proj in semis.items():
        status, _ = unhex_msg(results[p][0])
        if status != "OK" or meta[p]["generator"] != "retain_lines":
            continue
        text = bytes.fromhex(results[p][2]).decode("utf-8", "replace")
        for t in proj["tags"]:
            tags_checked += 1
            n_all = text.count(t)
            n_semi = len(re.findall(r";[ \t]*" + re.escape(t), text))
            if n_all != 1 or n_semi != 1:
                ctx.violation("retain_lines: the `;` after a last statement and its comment %s are written %d / %d times "
                              "(expected once each)" % (t, n_semi, n_all), replay_of(p, {"tag": t, "output": text[:6000]}),
                              key="semicolon-comment:%s" % meta[p]["generator"])
                break
    ctx.stream("text of the real bundle: accessor names of the wide project(s) are distinct non-keyword identifiers; "
               "retain_lines writes every block-ending `;` and the comment behind it exactly once",
               names_checked + tags_checked, names_checked + tags_checked, [], accessor_names=names_checked,
               semicolon_comments=tags_checked, wide_modules=[w + 1 for w in wide.values()])
    # model = code on the same projects (no rule pipeline: names and markers are intact)
    shape_results = {p: (results[p + 100000] if meta[p]["rules"] else results[p]) for p in projects}
    plain = {p: projects[p] for p in projects if unhex_msg(shape_results[p][0])[0] in ("OK", "ERR")
             and meta[p]["class"] not in ("shadow", "dotprefix")}
    # the shape is read with the project's modules identifier
    cases, cidx = model_cases(plain, shape_results)
    bad = C.run_coq_cases(ctx.prop, SHAPE_PREAMBLE, cases, chunk=60, tag="shape")
    ctx.stream("Model/Bundle.v vs the real bundle: definition order, generated names, call site -> module, per project",
               len(cases), sum(1 for p in plain if projects[p].get("shared")), [], mismatches=len(bad))
    # the emitted wrapper code is the code Model/BundleWrapper.v describes
    wcases, widx = [], {}
    for p in plain:
        if unhex_msg(shape_results[p][0])[0] == "OK":
            k = len(wcases)
            widx[k] = p
            wcases.append((k, '(nm "%s", %s)' % (meta[p]["modules_identifier"] or "__DARKLUA_BUNDLE_MODULES", shape_results[p][0])))
    wbad = C.run_coq_cases(ctx.prop, WRAP_PREAMBLE, wcases, chunk=12, tag="wrapper")
    ctx.stream("emitted module wrapper (modules table, __modImpl, caching accessor) = Model/BundleWrapper.v, per real bundle",
               len(wcases), len(wcases), [], mismatches=len(wbad))
    return [(cidx[k], d) for k, d in bad] + [(widx[k], d) for k, d in wbad], projects, meta, shape_results


def strip_dot(path):
    return path[2:] if path.startswith("./") else path


def graph_verdict(ctx, proj, cols, what):
    """independent oracle for a project made by G.small_project: error iff the graph reachable from the
    entry has a cycle; a cyclic-require message names a cycle of files of the graph; no crash. -> cyclic?"""
    status, message = unhex_msg(cols[0])
    cyc, seen = G.reachable_cycle(len(proj["adj"]), proj["adj"])
    if status == "SKIPPED":
        return cyc
    rep = {"files": proj["files"], "entry": proj["entry"], "adjacency": proj["adj"], "paths": proj["paths"],
           "status": status, "message": message[:600]}
    tag = "%s:%s" % (",".join(proj["paths"]) if proj.get("custom_paths") else "", proj["adj"])
    if status in ("PANIC", "HANG", "BAD", "CRASH"):
        ctx.violation("darklua %s on %s" % (status.lower(), what), rep, key="small-graph:%s:%s" % (status, tag))
    elif cyc and status == "OK":
        ctx.violation("a cyclic module graph was bundled without an error (%s)" % what, rep, key="cycle-not-reported:%s" % tag)
    elif not cyc and status != "OK":
        ctx.violation("an acyclic well-formed module graph is rejected (%s): %s" % (what, message[:200]), rep,
                      key="acyclic-rejected:%s" % tag)
    elif cyc:
        items = [it for it in split_errors(message) if it.startswith("cyclic require detected")]
        ok = bool(items)
        for it in items:
            chain = [strip_dot(c) for c in re.findall(r"`([^`]*)`", it)]
            idx = [proj["paths"].index(c) if c in proj["paths"] else -1 for c in chain]
            if len(idx) < 2 or idx[0] != idx[-1] or -1 in idx or any(b not in proj["adj"][a] for a, b in zip(idx, idx[1:])):
                ok = False
            if idx and idx[0] not in seen:
                ok = False
        if not ok:
            ctx.violation("the error for a cyclic graph does not name a cycle of files of the graph (%s)" % what, rep,
                          key="cycle-message:%s" % tag)
    return cyc


def samename_stream(ctx, rnd):
    """files with equal names / equal trailing path components in other directories, required through `..`:
    the acyclic chains must bundle (one definition per file), the same layouts with a real back edge must fail"""
    projects, jobs = {}, []
    pid = 0
    for paths in G.SAMENAME_LAYOUTS:
        n = len(paths)
        chain = [[i + 1] if i + 1 < n else [] for i in range(n)]
        variants = [("acyclic", chain),
                    ("acyclic", [c + ([n - 1] if i == 0 and n > 2 else []) for i, c in enumerate(chain)]),
                    ("acyclic", [c + ([i + 2] if i + 2 < n else []) for i, c in enumerate(chain)]),
                    ("cyclic", [c + ([1] if i == n - 1 else []) for i, c in enumerate(chain)]),
                    ("cyclic", [c + ([0] if i == n - 1 else []) for i, c in enumerate(chain)]),
                    ("cyclic", [c + ([i] if i == n - 1 else []) for i, c in enumerate(chain)]),
                    ("cyclic", [c + ([i - 1] if i == n - 1 and i > 1 else []) for i, c in enumerate(chain)])]
        for kind, adj in variants:
            for mode in ("path", "luau"):
                pid += 1
                proj = G.small_project(n, adj, mode=mode, paths=paths)
                proj["custom_paths"] = True
                proj["hazard"] = G.root_level_hazard(mode, paths, adj)
                proj["expect"] = kind
                projects[pid] = proj
                jobs.append({"id": pid, "files": proj["files"], "entry": proj["entry"],
                             "config": config_text(proj, GENERATORS[pid % 3], [], None)})
    results = run_harness(jobs)
    cyclic_n = 0
    for p, proj in projects.items():
        cyc = graph_verdict(ctx, proj, results[p], "files with equal names in different directories")
        cyclic_n += cyc
        if cyc != (proj["expect"] == "cyclic"):
            raise C.CheckBroken("same-name layout %s %s is not %s" % (proj["paths"], proj["adj"], proj["expect"]))
    # the model identifies a file with its path; a root-level file that requires something makes darklua use a
    # second spelling (`./x/y.lua`) of the paths it requires (recorded finding): those projects are judged by
    # the oracle above only
    cases, cidx = model_cases({p: q for p, q in projects.items() if not q["hazard"]}, results)
    bad = C.run_coq_cases(ctx.prop, SHAPE_PREAMBLE, cases, chunk=200, tag="samename")
    ctx.stream("equal file names / equal trailing path components in ancestor, sibling and deeper directories, required "
               "through `..` (7 layouts x 7 edge sets x 2 modes): acyclic chains bundle with one definition per file, the "
               "same layouts with a back edge are reported; verdict vs an independent cycle test and vs Model/Bundle.v",
               len(projects), len(projects), [{"paths": projects[1]["paths"], "adjacency": projects[1]["adj"]}],
               cyclic=cyclic_n, acyclic=len(projects) - cyclic_n, compared_with_model=len(cases), mismatches=len(bad))
    return [(cidx[k], d) for k, d in bad], projects, results


def small_graph_stream(ctx, rnd, sizes, sample4):
    """every digraph on n files: the error side (cycles), never a hang or a panic"""
    projects, jobs = {}, []
    pid = 0
    for n in sizes:
        adjs = list(G.all_adjacencies(n, rnd))
        if n >= 4 and sample4 is not None:
            adjs = rnd.sample(adjs, sample4)
        for adj in adjs:
            pid += 1
            mode = "luau" if pid % 5 == 0 else "path"
            proj = G.small_project(n, adj, mode=mode)
            projects[pid] = proj
            jobs.append({"id": pid, "files": proj["files"], "entry": proj["entry"],
                         "config": config_text(proj, GENERATORS[pid % 3], [], None), "timeout_ms": 20000})
    results = run_harness(jobs)
    cyclic_n = 0
    for p, proj in projects.items():
        cyclic_n += graph_verdict(ctx, proj, results[p], "a small module graph")
    cases, cidx = model_cases(projects, results)
    bad = C.run_coq_cases(ctx.prop, SHAPE_PREAMBLE, cases, chunk=400, tag="small")
    ctx.stream("all digraphs on %s files: darklua's verdict vs an independent cycle test, and vs Model/Bundle.v "
               "(error list / definition order)" % "/".join(str(n) for n in sizes), len(cases), cyclic_n,
               [{"adjacency": projects[3]["adj"], "status": unhex_msg(results[3][0])[0]}], cyclic=cyclic_n,
               mismatches=len(bad))
    return [(cidx[k], d) for k, d in bad], projects, results


DEFECT_SHAPES = [
    (2, [[1], []]),
    (3, [[1, 2], [2], []]),
    (4, [[1, 2], [3], [3], []]),
    (4, [[1], [2], [3], []]),
    (3, [[2, 1], [2], []]),
]


# a module that fails to load next to a REAL cycle that is closed afterwards (or before): (n, adjacency, failing node)
CYCLE_DEFECT_SHAPES = [
    (4, [[1], [3, 2], [1], []], 3),            # a -> broken, then a -> b -> a
    (4, [[1], [2, 3], [1], []], 3),            # the cycle first, the failure after it
    (4, [[1], [2], [3, 1], []], 3),            # the failure inside b, before b closes the cycle
    (4, [[3, 1], [2], [1], []], 3),            # the failure at entry level, before the cycle is entered
    (5, [[1], [4, 2], [3], [1], []], 4),       # a longer cycle after the failure
    (3, [[1], [2, 1], []], 2),                 # a self loop after the failure
    (5, [[1], [2], [4, 3], [2, 1], []], 4),    # two nested cycles after a failure two levels deep
]


def defect_stream(ctx, rnd):
    projects, jobs = {}, []
    pid = 0
    for n, adj, node in CYCLE_DEFECT_SHAPES:
        for d in [("syntax", node), ("badext", node), ("baddata", node, "json"), ("baddata", node, "toml"), ("missing", node),
                  ("two", node), ("bare", node), ("noreturn", node)]:
            pid += 1
            proj = G.small_project(n, adj, mode="luau" if pid % 4 == 0 else "path", defect=d)
            proj["with_cycle"] = True
            projects[pid] = proj
            jobs.append({"id": pid, "files": proj["files"], "entry": proj["entry"],
                         "config": config_text(proj, GENERATORS[pid % 3], [], None)})
    for n, adj in DEFECT_SHAPES:
        for node in range(1, n):
            kinds = [("missing", node), ("syntax", node), ("two", node), ("three", node), ("noreturn", node), ("bare", node),
                     ("bare-semicolon", node), ("doreturn", node)]
            if not adj[node]:
                kinds += [("baddata", node, f) for f in ("json", "json5", "yaml", "toml")]
            for d in kinds:
                pid += 1
                proj = G.small_project(n, adj, mode="luau" if pid % 4 == 0 else "path", defect=d)
                projects[pid] = proj
                jobs.append({"id": pid, "files": proj["files"], "entry": proj["entry"],
                             "config": config_text(proj, GENERATORS[pid % 3], [], None)})
    results = run_harness(jobs)
    named = 0
    chains_checked = 0
    for p, proj in projects.items():
        status, message = unhex_msg(results[p][0])
        d = proj["defect"]
        rep = {"files": proj["files"], "entry": proj["entry"], "defect": list(d), "status": status, "message": message[:800]}
        if status == "SKIPPED":
            continue
        if status != "ERR":
            ctx.violation("a project with a %s module is not reported as an error (%s)" % (d[0], status), rep,
                          key="defect-not-reported:%s:%s" % (d[0], status))
            continue
        want = "gone%d" % d[1] if d[0] == "missing" else proj["paths"][d[1]]
        if want in message:
            named += 1
        else:
            ctx.violation("the error for a %s module does not name the file `%s`: %s" % (d[0], want, message[:200]), rep,
                          key=KEY_DATA_ERR if d[0] == "baddata" else "defect-message:%s" % d[0])
        # every cyclic-require error names a closed walk of the graph: exactly the files of the cycle, never the
        # module that failed to load before / beside it
        items = [it for it in split_errors(message) if it.startswith("cyclic require detected")]
        if proj.get("with_cycle") and not items:
            ctx.violation("a real cycle next to a %s module is not reported" % d[0], rep, key="cycle-beside-defect-missing:%s" % d[0])
        for it in items:
            chains_checked += 1
            chain = [strip_dot(c) for c in re.findall(r"`([^`]*)`", it)]
            idx = [proj["paths"].index(c) if c in proj["paths"] else -1 for c in chain]
            if len(idx) < 2 or idx[0] != idx[-1] or -1 in idx or any(b not in proj["adj"][a] for a, b in zip(idx, idx[1:])) \
                    or d[1] in idx:
                ctx.violation("the cyclic-require error does not name the files of the cycle (a %s module was loaded "
                              "before it): %s" % (d[0], it[:200]), rep, key="cycle-chain-beside-defect:%s" % d[0])
    cases, cidx = model_cases(projects, results)
    bad = C.run_coq_cases(ctx.prop, SHAPE_PREAMBLE, cases, chunk=200, tag="defects")
    ctx.stream("missing file / syntax error / 2 or 3 values / no return / bare `return` / return inside a final do / "
               "malformed data at every node of 5 graph shapes: "
               "an error naming the file, and the model's error list; the same failures next to a real cycle closed "
               "afterwards / before (7 shapes x 8 failures): the reported chain is the cycle, and equals the model's",
               len(cases), len(cases), [], named=named, cycle_chains_checked=chains_checked, mismatches=len(bad))
    return [(cidx[k], d) for k, d in bad], projects, results


def run(ctx):
    C.build_harness("dl-c05")
    proofs_ok = C.proof_gate(ctx, ["Lua/RunCheck.vo", "Model/Bundle.vo", "Model/BundleWrapper.vo", "Proof/BundleWrapperExamples.vo"])
    rnd = random.Random(ctx.seed * 7919 + 5)
    quick = ctx.tier == "quick"

    # quick: far enough for the first two-letter keyword (`do`) to come up in the name stream
    widths = (140, G.modules_needed_to_reach("do") + 5) if quick else (140, max(G.modules_needed_to_reach(w) for w in ("do", "if", "in", "or")) + 15)
    bad1, projects, meta, results = behaviour_stream(ctx, rnd, 100 if quick else 1000, proofs_ok, widths)
    bad2, sprojects, sresults = small_graph_stream(ctx, rnd, [2, 3] if quick else [2, 3, 4], None)
    bad3, dprojects, dresults = defect_stream(ctx, rnd)
    bad4, nprojects, nresults = samename_stream(ctx, rnd)

    model_bad = [("generated project", projects[p], results[p], d) for p, d in bad1] + \
                [("small graph", sprojects[p], sresults[p], d) for p, d in bad2] + \
                [("defect injection", dprojects[p], dresults[p], d) for p, d in bad3] + \
                [("same-name layout", nprojects[p], nresults[p], d) for p, d in bad4]
    if model_bad and not ctx.violations:
        what, proj, cols, diag = model_bad[0]
        status, message = unhex_msg(cols[0])
        ctx.violation("correspondence broken: the real bundler and its Coq model (Model/Bundle.v: definition order, names, "
                      "call sites, error list; Model/BundleWrapper.v: emitted wrapper code) disagree on %d projects (%s); "
                      "the theorems no longer describe the code; no behavioural difference was found" % (len(model_bad), what),
                      {"files": proj["files"], "entry": proj["entry"], "graph": {k: list(v) for k, v in proj["graph"].items()},
                       "real_status": status, "real_message": message[:500], "real_shape": cols[3][:2000], "diag": diag},
                      found_input=False)
    if not proofs_ok and not ctx.violations:
        failed = [n for n, ok, _ in ctx.obligations if not ok]
        ctx.violation("proof obligation no longer checks: " + "; ".join(failed), {"obligations": failed}, found_input=False)


def replay(ctx, path):
    r = json.load(open(path))
    print(json.dumps(r, indent=1)[:20000])
    rep = r.get("replay", {})
    if "files" in rep and "config" in rep:
        C.build_harness("dl-c05")
        job = {"id": 1, "files": rep["files"], "entry": rep["entry"], "config": rep["config"]}
        if rep.get("reference"):
            job["reference"] = rep["reference"]
        cols = run_harness([job])[1]
        status, message = unhex_msg(cols[0])
        print("darklua:", status, message[:2000])
        if cols[2] != "-":
            print(bytes.fromhex(cols[2]).decode("utf-8", "replace"))
        if status == "OK" and rep.get("reference"):
            stats = C.run_coq_stats(ctx.prop, PREAMBLE, [(0, "(%d%%nat, (%s, %s))" % (4 * len(rep["files"]) + FUEL, cols[1], cols[0]))], tag="replay")
            print("compare_all:", {0: "same behaviour", 1: "no verdict", 2: "DIFFERENT behaviour"}[stats[0]])
            return 1 if stats[0] == 2 else 0
        return 1 if status != "OK" else 0
    return 0
