"""Correspondence stream of C07 for remove_continue: the Gallina model of the rule
(coq/Model/RemoveContinue.v: post-order traversal, loop stack, loop numbering, the generated
flag names and the `repeat ... until true` wrapping) against the real rule.

Every program is pushed through the real rule (`dl-rules apply-batch`, rule applied to the AST);
inside Coq `block_eqb (remove_continue_block IN) OUT` is evaluated (tree EQUALITY, names and
numbering included), together with a property-level oracle that does not use the model of the
rule: the census of `continue` in darklua's OUTPUT (Lua/Census.v) must be 0 whenever every
`continue` of the INPUT is under a loop frame (`continue_in_loops`, the specification-side
predicate of Model/RemoveContinue.v).

Programs: the loop-body constructs of c07.CONSTRUCTS["remove_continue"] in every loop kind and
every slot template of c07 (statement-in-statement, statement-in-expression, every expression
position of every statement kind), hand-written shapes (nested loops, break + continue,
continue in nested functions, local / type functions inside loops, repeat-until conditions that
read body locals, loops inside the function expressions of loop headers, `until` conditions and
type annotations - these fix the ORDER in which loops are numbered), and random statement trees."""
import random

from . import common as C

RULE = '["remove_continue"]'

PREAMBLE = """From Coq Require Import ZArith.
From DL Require Import Lib.Bytes Lua.Syntax Lua.Census Lua.Fingerprint Model.RemoveContinue.
Open Scope N_scope.
Open Scope string_scope.
Definition bx := unhex.
Definition nm := of_string.
(* case = (input tree, darklua's output tree); verdict:
   0 = model = code and the rule changed the tree, 1 = model = code, tree unchanged,
   2 = model <> code (census oracle satisfied), 3 = a `continue` is left in the real output although
   every `continue` of the input is under a loop frame (with or without model = code) *)
Definition stat_case (c : block * block) : N :=
  let bin := fst c in
  let bout := snd c in
  if andb (continue_in_loops bin) (negb (N.eqb (feature 1 bout) 0)) then 3
  else if block_eqb (remove_continue_block bin) bout then (if block_eqb bin bout then 1 else 0)
  else 2.
"""

LOOPS = ["while c do HOLE end", "repeat HOLE until c", "for i = 1, 2 do HOLE end", "for k, v in pairs(t) do HOLE end"]

BODIES = [
    "continue",
    "f() continue",
    "if c then continue end",
    "if c then continue end g()",
    "if c then continue else break end",
    "if c then break end if d then continue end h()",
    "if c then continue elseif d then continue else return 1 end",
    "if c then f() continue end return",
    "do continue end",
    "do do if a then continue end end end break",
    "if a then if b then continue end end",
    "local x = f() if x then continue end g(x)",
    "if c then break end",
    "break",
    "return",
    "f()",
    "",
]

HAND = [
    # nested loops: the inner flag belongs to the inner loop, numbering is pre-order
    "while a do while b do if c then continue end end if d then continue end end",
    "while a do for i = 1, 2 do continue end end",
    "while a do for i = 1, 2 do f() end continue end",
    "for i = 1, 2 do repeat if c then continue end until d if e then break end end",
    "while a do while b do while c do if d then continue end break end continue end end",
    "while a do if x then continue end for k, v in pairs(t) do if v then continue else break end end end",
    # siblings: ids keep growing
    "while a do continue end while b do f() end while c do continue end",
    "for i = 1, 2 do end for j = 1, 2 do continue end repeat continue until c",
    # repeat-until whose condition reads a body local (known semantic finding of C06)
    "repeat local x = f() if x then continue end until x",
    "repeat local x = f() if x then continue end g() until x > 1 and y",
    "repeat local done = step() if skip then continue end until done",
    # nested functions: own frame for function expressions / statements
    "while a do local g = function() continue end end",
    "while a do local g = function() while b do continue end end continue end",
    "while a do function M.f() for i = 1, 2 do if c then continue end end end end",
    "while a do t.f = function() repeat continue until c end if d then continue end end",
    "local function outer() for i = 1, 2 do local function inner() for j = 1, 2 do continue end end continue end end",
    # local functions and type functions push no frame
    "while a do local function g() continue end end",
    "while a do local function g() if c then continue end end g() end",
    "while a do local function g() while b do continue end end end",
    "while a do type function tf() continue end end",
    "local function g() continue end",
    "local function g() if c then continue end end",
    # continue outside of any loop: left alone
    "continue",
    "do continue end",
    "if c then continue end",
    "function f() continue end",
    "local g = function() if c then continue end end",
    "while a do end continue",
    # loops inside expressions of loop headers / conditions / annotations: numbering order
    "while (function() while x do continue end end)() do if c then continue end end",
    "repeat if c then continue end until (function() for i = 1, 2 do continue end end)()",
    "repeat for i = 1, 2 do continue end until (function() while x do continue end end)()",
    "for i = (function() while x do continue end end)(), (function() repeat continue until y end)(), "
    "(function() for k in z do continue end end)() do continue end",
    "for k, v in (function() while x do continue end end)(), (function() while y do continue end end)() do continue end",
    "for i: typeof(function() while x do continue end end) = 1, 2 do while y do continue end end",
    "for k: typeof(function() while x do continue end end), v in pairs(t) do while y do continue end end",
    "local a: typeof(function() while x do continue end end) = function() while y do continue end end",
    "local a, b = function() while x do continue end end, function() repeat continue until y end",
    "t[function() while x do continue end end] = function() while y do continue end end",
    "t[function() while x do continue end end] += (function() while y do continue end end)()",
    "local function g(p: typeof(function() while x do continue end end)): typeof(function() while y do continue end end) "
    "while z do continue end end",
    "local g = function(p: typeof(function() while x do continue end end), ...: typeof(function() while w do continue end end)) "
    "while z do continue end end",
    "type T<U = typeof(function() while x do continue end end)> = typeof(function() while y do continue end end)",
    "local v = (function() while x do continue end end) :: typeof(function() while y do continue end end)",
    "local v = { [function() while x do continue end end] = function() while y do continue end end, "
    "function() while z do continue end end }",
    "local v = if function() while x do continue end end then function() while y do continue end end "
    "else function() while z do continue end end",
    "local v = `{function() while x do continue end end}{function() while y do continue end end}`",
    "f(function() while x do continue end end)(function() while y do continue end end)",
    "return function() while x do continue end end, function() while y do continue end end",
    "if (function() while x do continue end end)() then while y do continue end "
    "elseif (function() while z do continue end end)() then while w do continue end else while u do continue end end",
    "local v = f<<typeof(function() while x do continue end end)>>(function() while y do continue end end)",
    "while a do local p = { f = function() for i = 1, 2 do if i then continue end end end } if p then continue end end",
    # empty body, body ending in return / break
    "while a do if c then continue end return 1 end",
    "while a do if c then continue end break end",
    "for i = 1, 2 do if c then continue end do break end end",
]


class Gen:
    """random statement trees around loops, continue and break"""

    def __init__(self, rnd):
        self.rnd = rnd

    def expr(self, depth):
        r = self.rnd.random()
        if depth > 0 and r < 0.18:
            return "function() %s end" % self.block(max(depth - 1, 1), False)
        if depth > 0 and r < 0.24:
            return "(function() %s end)()" % self.block(max(depth - 1, 1), False)
        if r < 0.30:
            return "f(%s)" % self.expr(0)
        return self.rnd.choice(["a", "b", "c", "x", "1", "nil", "t.k", "#t", "not a", "a == b"])

    def last(self, in_loop):
        r = self.rnd.random()
        if r < (0.45 if in_loop else 0.08):
            return "continue"
        if r < (0.60 if in_loop else 0.12):
            return "break"
        if r < 0.68:
            return "return " + self.expr(0)
        return ""

    def stmt(self, depth, in_loop):
        if depth <= 0:
            return self.rnd.choice(["f()", "local x = %s" % self.expr(0), "x = %s" % self.expr(0)])
        k = self.rnd.randrange(14)
        e = lambda: self.expr(depth - 1)
        b = lambda loop: self.block(depth - 1, loop)
        if k == 0:
            return "while %s do %s end" % (e(), b(True))
        if k == 1:
            return "repeat %s until %s" % (b(True), e())
        if k == 2:
            return "for i = %s, %s do %s end" % (e(), e(), b(True))
        if k == 3:
            return "for k, v in %s do %s end" % (e(), b(True))
        if k == 4:
            return "if %s then %s end" % (e(), b(in_loop))
        if k == 5:
            return "if %s then %s elseif %s then %s else %s end" % (e(), b(in_loop), e(), b(in_loop), b(in_loop))
        if k == 6:
            return "do %s end" % b(in_loop)
        if k == 7:
            return "local function g() %s end" % b(False)
        if k == 8:
            return "function M.f() %s end" % b(False)
        if k == 9:
            return "local v = %s" % e()
        if k == 10:
            return "t[%s] = %s" % (e(), e())
        if k == 11:
            return "for i = 1, 2, %s do %s end" % (e(), b(True))
        if k == 12:
            return "local w: typeof(%s) = %s" % (e(), e())
        return "f(%s)" % e()

    def block(self, depth, in_loop):
        n = self.rnd.choice([0, 1, 1, 2, 2, 3])
        parts = [self.stmt(depth, in_loop) for _ in range(n)]
        parts.append(self.last(in_loop))
        return " ".join(p for p in parts if p)


def sources(rnd, thorough):
    from . import c07
    out = []
    for loop in LOOPS:
        for body in BODIES:
            out.append(loop.replace("HOLE", body))
    # loop in loop, both orders of who has the continue
    for outer in LOOPS:
        for inner in LOOPS:
            for ib, ob in (("continue", ""), ("", "continue"), ("if a then continue end", "if b then continue end"),
                           ("if a then break end continue", "if b then continue end break"),
                           ("if a then continue end", "break")):
                out.append(outer.replace("HOLE", inner.replace("HOLE", ib) + " " + ob))
    out += HAND
    # every loop-body construct of the census stream in every slot template
    limit = None if thorough else 80
    for k in c07.CONSTRUCTS["remove_continue"][3]:
        out += c07.contexts_for_stmt(k, True, rnd, limit, loops_only=True)
    g = Gen(rnd)
    for _ in range(6000 if thorough else 500):
        out.append(g.block(rnd.choice([2, 3, 3, 4]), False))
    # many sibling loops (ids with several digits)
    out.append(" ".join("while c%d do if a then continue end end" % i for i in range(120)))
    seen, uniq = set(), []
    for s in out:
        if s not in seen:
            seen.add(s)
            uniq.append(s)
    return uniq


def run_stream(ctx, prop):
    """Returns the number of mismatching cases (after recording stream + violations)."""
    rnd = random.Random(ctx.seed ^ 0xC0471)
    thorough = ctx.tier != "quick"
    srcs = sources(rnd, thorough)
    stdin = "".join("%s\t%s\t%s\n" % (RULE, '"dense"', s.encode().hex()) for s in srcs)
    out = C.harness("dl-rules", ["apply-batch"], input=stdin, timeout=1800)
    lines = out.splitlines()
    if len(lines) != len(srcs):
        raise C.CheckBroken("apply-batch returned %d lines for %d jobs" % (len(lines), len(srcs)))
    cases, index, unparsable, rule_errors = [], {}, 0, []
    for src, line in zip(srcs, lines):
        t_in, t_out, _t_e2e, _text = line.split("\t")
        if t_in.startswith("ERR:"):
            unparsable += 1
            continue
        if t_out.startswith("ERR:"):
            rule_errors.append((src, t_out))
            continue
        k = len(cases)
        index[k] = src
        cases.append((k, "(%s, %s)" % (t_in, t_out)))
    if unparsable > len(srcs) // 10:
        raise C.CheckBroken("%d of %d remove_continue templates do not parse" % (unparsable, len(srcs)))
    # one shard per core: the start-up of coqc (loading the model) dominates a shard of this size
    stats = C.run_coq_stats(prop, PREAMBLE, cases, chunk=max(60, -(-len(cases) // C.NPROC)), tag="continue")
    changed = [k for k, v in stats.items() if v == 0]
    same = [k for k, v in stats.items() if v == 1]
    bad = sorted(k for k, v in stats.items() if v == 2)
    left = sorted(k for k, v in stats.items() if v == 3)
    ctx.stream("remove_continue: model of the rule (Model/RemoveContinue.v) vs the rule applied to the tree, tree equality",
               len(cases), len(changed), [{"rules": RULE, "source": index[k]} for k in changed[:3]],
               equal_and_changed=len(changed), equal_and_unchanged=len(same), mismatches=len(bad),
               continue_left_in_output=len(left), unparsable_templates=unparsable, rule_errors=len(rule_errors))
    for k in left[:3]:
        ctx.violation("remove_continue leaves a `continue` that is inside a loop of its function",
                      {"rules": RULE, "source": index[k], "stream": "remove_continue model-vs-code + census of the real output",
                       "replay": "darklua process with these rules on this source; census: Lua/Census.v feature 1"})
    for src, err in rule_errors[:3]:
        ctx.violation("darklua failed on a valid program: " + err[:300], {"rules": RULE, "source": src, "stage": "out"})
    if bad and not left:
        ctx.violation("correspondence broken: remove_continue's output differs from the model's on %d of %d programs "
                      "(the theorems about the model no longer describe the code)" % (len(bad), len(cases)),
                      {"rules": RULE, "source": index[bad[0]], "stream": "remove_continue model-vs-code",
                       "others": [{"rules": RULE, "source": index[k]} for k in bad[1:6]]},
                      found_input=False)
    return len(bad) + len(left)
