"""C01 - Default rules preserve program behaviour."""
import re

from . import common as C
from . import rulecheck
from . import defaultrules

META = {
    "title": "Default rules preserve program behaviour",
    "level": "proof",
    "design_ref": "DESIGN.md section 6 / C01",
    "technique": "Coq theorems on Gallina models of the node-level rewrites of nine default rules (local semantic "
                 "equivalence against the reference Lua semantics, resting on the C08 evaluator theorems), models tied to "
                 "the Rust rules by a per-run tree comparison inside Coq + whole-program translation validation in the Coq "
                 "reference interpreter",
    "level_text": "Machine-checked local-equivalence theorems (Coq, Properties/C01.v) for the rewrites of compute_expression, "
                  "remove_unused_if_branch (statement and expression form), remove_unused_while, filter_after_early_return, "
                  "remove_empty_do, remove_nil_declaration (partial), convert_index_to_field, remove_method_definition and "
                  "remove_function_call_parens, stated about Model/DefaultRules.v against the fuel-indexed reference semantics "
                  "for every dialect, fuel, environment and store (the multi-value position of compute_expression is refuted "
                  "by a witness: recorded finding); on every run the models, applied over the whole tree in DefaultVisitor "
                  "order, are compared with the output tree of each real rule on programs aimed at every arm of the models; "
                  "and on every run, generated programs are transformed by the real rules "
                  "(on the tree and end to end through each generator) and original and output are executed in the Coq "
                  "reference interpreter under both dialects and several oracle streams, any difference being the replay.",
    "level_note": "Trusted: Coq kernel + vm_compute; Lua/Sem.v (specification); harness dl-rules + astdump. The lifting of "
                  "local lemmas to whole programs is not proved (partial): whole-program equivalence is validated per run, "
                  "not for all programs.",
    "trusted_base": ["Coq 8.16.1 kernel, vm_compute",
                     "standard-library axioms via Flocq (through the C08 evaluator theorems): sig_not_dec, sig_forall_dec, "
                     "functional_extensionality_dep, classic",
                     "Lua/Sem.v reference semantics + Lib/F64.v (specification)",
                     "harness/crates/rules (program generator) + astdump (AST printer)", "darklua's parser (to read programs)"],
    "allowed_axioms": ["ClassicalDedekindReals.sig_not_dec", "ClassicalDedekindReals.sig_forall_dec",
                       "FunctionalExtensionality.functional_extensionality_dep", "Classical_Prop.classic"],
    "rule": "seeded typed generator of observable programs (closures, upvalues, shadowing, varargs, multiple returns, "
            "metatables with observable metamethods, loops with break, method calls, foldable and dead code) x the 13 default rules: full list, single rule, or random subset in random order; a case is "
            "non-trivial when the reference run gives a verdict (error-free, dialect-independent) and the rules changed the tree; "
            "model stream: per rule, hand-written snippets hitting every arm of the model's case splits x syntactic contexts "
            "(3 sampled per snippet in quick, all in thorough), non-trivial = the rule changed the tree",
    "assumptions": ["Lua/Sem.v is a faithful reference semantics on the modelled fragment"],
}

def run(ctx):
    C.build_harness("dl-rules")
    proofs_ok = C.proof_gate(ctx, ["Lua/RunCheck.vo", "Lua/KnownClasses.vo", "Model/DefaultRules.vo", "Lua/Fingerprint.vo"])
    defaultrules.model_stream(ctx)
    n = 500 if ctx.tier == "quick" else 6000
    rulecheck.run_profile(ctx, "c01", n, classify=None)
    if not proofs_ok and not ctx.violations:
        failed = [n for n, ok, _ in ctx.obligations if not ok]
        ctx.violation("proof obligation no longer checks: " + "; ".join(failed), {"obligations": failed},
                      found_input=False)


def replay(ctx, path):
    import json
    print(json.dumps(json.load(open(path)), indent=1))
    return 0
