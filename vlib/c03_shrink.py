"""Shrinking a failing Lua source to a small one (C03/C04/C18 replays).

`shrink(src, fails)` repeatedly deletes chunks while `fails(candidate)` stays true: first
whole lines, then lexical pieces (code tokens, comments, white-space runs, taken with the
reference lexer), then single characters of white space.  `fails` must itself make sure
the candidate is still accepted by darklua (a parse error is not a failure)."""
from . import c18_lex as L


def pieces(src):
    data = src.encode("utf-8")
    try:
        toks, comments = L.lex(data)
    except L.LexError:
        return None
    items = sorted(list(toks) + list(comments), key=lambda t: t.start)
    out = []
    pos = 0
    for t in items:
        if t.start > pos:
            out.append(data[pos:t.start])
        out.append(data[t.start:t.end])
        pos = t.end
    if pos < len(data):
        out.append(data[pos:])
    return [p.decode("utf-8", errors="replace") for p in out]


def ddmin(chunks, fails, budget):
    """classic delta debugging on a list of chunks; returns the reduced list"""
    n = 2
    while len(chunks) >= 2 and budget[0] > 0:
        size = max(1, len(chunks) // n)
        reduced = False
        i = 0
        while i < len(chunks) and budget[0] > 0:
            cand = chunks[:i] + chunks[i + size:]
            budget[0] -= 1
            if cand and fails("".join(cand)):
                chunks = cand
                n = max(n - 1, 2)
                reduced = True
            else:
                i += size
        if not reduced:
            if size == 1:
                break
            n = min(len(chunks), n * 2)
    return chunks


def strip_comments(src, keep_lines=True):
    """all comments replaced by their line breaks (or nothing) and a space"""
    ps = pieces(src)
    if ps is None:
        return src
    out = []
    for p in ps:
        if p.startswith("--"):
            out.append(" " + ("\n" * p.count("\n") if keep_lines else ""))
        else:
            out.append(p)
    return "".join(out)


def squeeze_spaces(src):
    """every white-space run reduced to its line breaks, or one space"""
    ps = pieces(src)
    if ps is None:
        return src
    out = []
    for p in ps:
        if p.strip() == "" and p != "":
            out.append("\n" * p.count("\n") if "\n" in p else " ")
        else:
            out.append(p)
    return "".join(out)


def shrink(src, fails, max_tests=400):
    budget = [max_tests]
    if not fails(src):
        return src
    for f in (strip_comments, squeeze_spaces):
        cand = f(src)
        budget[0] -= 1
        if cand != src and fails(cand):
            src = cand
    lines = src.splitlines(keepends=True)
    lines = ddmin(lines, fails, budget)
    cur = "".join(lines)
    for _ in range(3):
        ps = pieces(cur)
        if ps is None or budget[0] <= 0:
            break
        new = "".join(ddmin(ps, fails, budget))
        if new == cur:
            break
        cur = new
    return cur
